"""vcheck: run <ID> [--tier quick|thorough] | replay <file> | list"""
import argparse
import importlib
import json
import os
import sys
import time

ROOT = os.path.dirname(os.path.dirname(os.path.abspath(__file__)))


def cmd_run(a):
    prop = a.prop.upper()
    tier = a.tier or os.environ.get("VERIF_TIER") or "quick"
    seed = int(os.environ.get("VERIF_SEED", "0") or 0)
    t0 = time.time()
    from vf.xh import loader
    loader.install(rewrite=False)
    mod = importlib.import_module("harness." + prop.lower())
    if hasattr(mod, "run"):  # engine-specific driver (Engine C or mixed)
        rc = mod.run(tier, seed)
        return rc
    from vf import runner
    jobs = mod.jobs(tier)
    if a.only:
        jobs = [j for j in jobs if a.only in j.label()]
    print("== %s tier=%s: %d jobs (+%d vacuity twins) ==" % (prop, tier, len(jobs), len(jobs)), flush=True)
    out = runner.run_xh(prop, jobs, tier, verbose=not a.quiet)
    if hasattr(mod, "post"):
        mod.post(out, tier, seed)
    path = runner.write_evidence(out, mod.META, time.time() - t0, seed)
    rc = out.exit_code()
    print("== %s: obligations=%d discharged=%d inconclusive=%d known=%d violations=%d harness_errors=%d wall=%.0fs evidence=%s exit=%d" % (
        prop, out.obligations, out.discharged, len(out.inconclusive), len(out.known), len(out.violations),
        len(out.harness_errors), time.time() - t0, os.path.relpath(path, ROOT), rc), flush=True)
    for e in out.harness_errors:
        print("HARNESS-ERROR: " + e, flush=True)
    return rc


def cmd_replay(a):
    from vf import replay
    with open(a.file) as f:
        spec = json.load(f)
    if spec.get("engine") == "bmc":
        from vf.bmc import replay_cli
        return replay_cli.main(spec)
    sys.argv = ["vf.replay", a.file, "--human"]
    return replay.main()


def main():
    ap = argparse.ArgumentParser(prog="vcheck")
    sub = ap.add_subparsers(dest="cmd", required=True)
    r = sub.add_parser("run")
    r.add_argument("prop")
    r.add_argument("--tier", choices=["quick", "thorough"])
    r.add_argument("--only", default="")
    r.add_argument("--quiet", action="store_true")
    r.set_defaults(func=cmd_run)
    p = sub.add_parser("replay")
    p.add_argument("file")
    p.set_defaults(func=cmd_replay)
    a = ap.parse_args()
    sys.exit(a.func(a))


if __name__ == "__main__":
    main()
