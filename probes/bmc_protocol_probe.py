"""Prototype 2: FactoryFunctorPool protocol, several calls, quota/replacement. Hand-abstracted CFA,
only to size the BMC (the real engine compiles the CFA from the AST)."""
import sys, time, os, itertools
import z3
BW = 6
def I(v): return z3.BitVecVal(v, BW)
T = z3.BoolVal(True)
NONE, TOKEN = -2, -3

class Sys:
    def __init__(s): s.vars = {}; s.threads = []
    def var(s, name, init, sort='int'): s.vars[name] = (sort, init)
    def thread(s, name, edges, final, start_var=None): s.threads.append((name, edges, final, start_var))

def build_system(W, Q, CALLS, NCH, FIXA, FIXB, FIXC, RQMAX=None):
    """W initial workers, quota Q (0 = inf), CALLS = number of imap calls, NCH = max chunks per call."""
    S = Sys()
    SP = 0 if Q == 0 else CALLS * NCH            # spare workers (upper bound on retirements)
    NW = W + SP
    QC = max(NCH * CALLS + CALLS + 1, W + 2)      # slots
    nch = [z3.BitVec(f'nch{c}', BW) for c in range(CALLS)]
    S.params = nch
    S.var('sending', False, 'bool'); S.var('data_cnt', 0)
    for q in ('wq', 'rq', 'pq'):
        S.var(q + '_len', 0)
        for j in range(QC): S.var(f'{q}_{j}', -1)
    S.var('lock', -1); S.var('spare_next', 0)
    def q_put(st, q, val):
        u = {f'{q}_{j}': z3.If(st[q + '_len'] == j, val, st[f'{q}_{j}']) for j in range(QC)}
        u[q + '_len'] = st[q + '_len'] + I(1); return u
    def q_get(st, q):
        u = {f'{q}_{j}': st[f'{q}_{j+1}'] for j in range(QC - 1)}
        u[f'{q}_{QC-1}'] = I(-1); u[q + '_len'] = st[q + '_len'] - I(1); return u
    WQMAX = W
    # procs slots -> worker id
    for i in range(W): S.var(f'procs_{i}', i)
    # workers
    for w in range(NW):
        S.var(f'w{w}_started', w < W, 'bool'); S.var(f'w{w}_item', -1); S.var(f'w{w}_quota', Q if Q else 1)
        e = []
        # 0: loop head: quota>0 ?
        if Q:
            e.append((0, 1, lambda st, w=w: st[f'w{w}_quota'] > 0, lambda st: {}))
            e.append((0, 6, lambda st, w=w: st[f'w{w}_quota'] <= 0, lambda st: {}))
        else:
            e.append((0, 1, lambda st: T, lambda st: {}))
        e.append((1, 2, lambda st: st['wq_len'] > 0, lambda st, w=w: {**q_get(st, 'wq'), f'w{w}_item': st['wq_0']}))
        e.append((2, 7, lambda st, w=w: st[f'w{w}_item'] == NONE, lambda st: {}))
        e.append((2, 3, lambda st, w=w: st[f'w{w}_item'] != NONE, lambda st: {}))
        e.append((3, 4, lambda st: st['lock'] == -1, lambda st, w=w: {'lock': I(10 + w)}))
        # put(block=False) under lock; if full -> release then blocking put (5b)
        if RQMAX is None:
            e.append((4, 5, lambda st: T, lambda st, w=w: q_put(st, 'rq', st[f'w{w}_item'])))
            e.append((5, 0, lambda st: T, lambda st, w=w: {'lock': I(-1), **({f'w{w}_quota': st[f'w{w}_quota'] - I(1)} if Q else {})}))
        else:
            e.append((4, 5, lambda st: st['rq_len'] < RQMAX, lambda st, w=w: q_put(st, 'rq', st[f'w{w}_item'])))
            e.append((4, 8, lambda st: st['rq_len'] >= RQMAX, lambda st: {}))
            e.append((5, 0, lambda st: T, lambda st, w=w: {'lock': I(-1), **({f'w{w}_quota': st[f'w{w}_quota'] - I(1)} if Q else {})}))
            e.append((8, 9, lambda st: T, lambda st: {'lock': I(-1)}))
            e.append((9, 0, lambda st: st['rq_len'] < RQMAX, lambda st, w=w: {**q_put(st, 'rq', st[f'w{w}_item']), **({f'w{w}_quota': st[f'w{w}_quota'] - I(1)} if Q else {})}))
        if Q:
            e.append((6, 7, lambda st: T, lambda st, w=w: q_put(st, 'pq', I(w))))   # replace_queue.put(wid)
        S.thread(f'w{w}', e, 7, f'w{w}_started')
    # per call: feeder, replace thread
    for c in range(CALLS):
        S.var(f'f{c}_started', False, 'bool'); S.var(f'f{c}_i', 0)
        S.var(f'run{c}', True, 'bool'); S.var(f'stop{c}', False, 'bool')
        fe = []
        if FIXA:
            fe.append((0, 2, lambda st: T, lambda st: {}))
        else:
            fe.append((0, 1, lambda st: T, lambda st: {'sending': z3.BoolVal(True)}))
            fe.append((1, 2, lambda st: T, lambda st: {'data_cnt': I(0)}))
        fe.append((2, 3, lambda st, c=c: st[f'f{c}_i'] < nch[c], lambda st: {}))
        fe.append((2, 7, lambda st, c=c: st[f'f{c}_i'] >= nch[c], lambda st: {}))
        fe.append((3, 4, lambda st: st['wq_len'] < WQMAX, lambda st, c=c: q_put(st, 'wq', st[f'f{c}_i'] + I(c * 10))))
        fe.append((4, 5, lambda st: T, lambda st, c=c: {'data_cnt': st['data_cnt'] + I(1), f'f{c}_i': st[f'f{c}_i'] + I(1)}))
        fe.append((5, 7, lambda st, c=c: st[f'stop{c}'], lambda st: {}))
        fe.append((5, 6, lambda st, c=c: z3.Not(st[f'stop{c}']), lambda st: {}))
        fe.append((6, 2, lambda st, c=c: st[f'run{c}'], lambda st: {}))
        if FIXB:
            fe.append((7, 8, lambda st: T, lambda st: {'sending': z3.BoolVal(False)}))
            fe.append((8, 9, (lambda st: T) if RQMAX is None else (lambda st: st['rq_len'] < RQMAX), lambda st: q_put(st, 'rq', I(TOKEN))))
            ffinal = 9
        else:
            fe.append((7, 8, lambda st: T, lambda st: {'sending': z3.BoolVal(False)})); ffinal = 8
        S.thread(f'f{c}', fe, ffinal, f'f{c}_started')
        if Q:
            S.var(f'r{c}_started', False, 'bool'); S.var(f'rstop{c}', False, 'bool'); S.var(f'r{c}_id', -1); S.var(f'r{c}_idx', -1)
            re = []
            if FIXC:
                re.append((0, 1, lambda st: T, lambda st: {}))
            else:
                re.append((0, 1, lambda st, c=c: z3.Not(st[f'rstop{c}']), lambda st: {}))
                re.append((0, 6, lambda st, c=c: st[f'rstop{c}'], lambda st: {}))
            re.append((1, 2, lambda st: st['pq_len'] > 0, lambda st, c=c: {**q_get(st, 'pq'), f'r{c}_id': st['pq_0']}))
            re.append((2, 6, lambda st, c=c: st[f'r{c}_id'] == NONE, lambda st: {}))
            # find index (local) and join old worker: enabled iff that worker finished
            def joined(st, c=c):
                return z3.Or([z3.And(st[f'r{c}_id'] == w, st[f'pc_w{w}'] == 7) for w in range(NW)])
            def findidx(st, c=c):
                e = I(-1)
                for i in range(W): e = z3.If(st[f'procs_{i}'] == st[f'r{c}_id'], I(i), e)
                return e
            re.append((2, 3, lambda st, c=c: z3.And(st[f'r{c}_id'] != NONE, joined(st)), lambda st, c=c: {f'r{c}_idx': findidx(st)}))
            # create + init + assign procs[idx] = new ; then start
            def assign(st, c=c):
                new = I(W) + st['spare_next']
                u = {f'procs_{i}': z3.If(st[f'r{c}_idx'] == i, new, st[f'procs_{i}']) for i in range(W)}
                u['spare_next'] = st['spare_next'] + I(1); return u
            re.append((3, 4, lambda st: st['spare_next'] < SP, assign))
            def startnew(st, c=c):
                return {f'w{w}_started': z3.Or(st[f'w{w}_started'], z3.Or([z3.And(st[f'r{c}_idx'] == i, st[f'procs_{i}'] == w) for i in range(W)])) for w in range(W, NW)}
            re.append((4, 0, lambda st: T, startnew))
            S.thread(f'r{c}', re, 6, f'r{c}_started')
    # main thread: sequence of calls
    S.var('c_fin', 0); S.var('c_wait', 0); S.var('c_nres', 0); S.var('bad', False, 'bool')
    for c in range(CALLS):
        S.var(f'out{c}_len', 0)
        for j in range(NCH): S.var(f'buf{c}_{j}', False, 'bool'); S.var(f'out{c}_{j}', -1)
    def insert_drain(st, c, idx_raw):
        idx = idx_raw - I(c * 10)
        istok = idx_raw == TOKEN
        wrong = z3.And(z3.Not(istok), z3.Or(idx < 0, idx >= NCH, idx < st['c_wait']))   # foreign / already generated
        present = [z3.Or(st[f'buf{c}_{j}'], z3.And(z3.Not(istok), idx == j)) for j in range(NCH)]
        wait, fin, outlen = st['c_wait'], st['c_fin'], st[f'out{c}_len']
        outs = [st[f'out{c}_{j}'] for j in range(NCH)]
        for _ in range(NCH):
            can = z3.Or([z3.And(wait == j, present[j]) for j in range(NCH)])
            outs = [z3.If(z3.And(can, outlen == j), wait, outs[j]) for j in range(NCH)]
            present = [z3.And(present[j], z3.Not(z3.And(can, wait == j))) for j in range(NCH)]
            outlen = z3.If(can, outlen + I(1), outlen); fin = z3.If(can, fin + I(1), fin); wait = z3.If(can, wait + I(1), wait)
        u = {'c_wait': wait, 'c_fin': fin, f'out{c}_len': outlen, 'bad': z3.Or(st['bad'], wrong)}
        for j in range(NCH): u[f'buf{c}_{j}'] = present[j]; u[f'out{c}_{j}'] = outs[j]
        return u
    me = []; pc = 0
    for c in range(CALLS):
        b = pc
        if Q: me.append((b, b + 1, lambda st: T, lambda st, c=c: {f'r{c}_started': z3.BoolVal(True)}))
        else: me.append((b, b + 1, lambda st: T, lambda st: {}))
        init = {'c_fin': I(0), 'c_wait': I(0)}
        if FIXA:
            me.append((b + 1, b + 2, lambda st: T, lambda st, c=c, init=init: {**init, 'sending': z3.BoolVal(True), 'data_cnt': I(0), f'f{c}_started': z3.BoolVal(True)}))
        else:
            me.append((b + 1, b + 2, lambda st: T, lambda st, c=c, init=init: {**init, f'f{c}_started': z3.BoolVal(True)}))
        L = b + 2
        me.append((L, L + 2, lambda st: st['sending'], lambda st: {}))
        me.append((L, L + 1, lambda st: z3.Not(st['sending']), lambda st: {}))
        me.append((L + 1, L + 2, lambda st: st['c_fin'] < st['data_cnt'], lambda st: {}))
        me.append((L + 1, L + 11, lambda st: st['c_fin'] >= st['data_cnt'], lambda st: {}))
        me.append((L + 2, L + 3, lambda st: st['rq_len'] > 0, lambda st: {'c_nres': I(0)}))
        me.append((L + 2, L + 8, lambda st: st['rq_len'] <= 0, lambda st: {}))
        me.append((L + 3, L + 4, lambda st: st['lock'] == -1, lambda st: {'lock': I(1)}))
        me.append((L + 4, L + 5, lambda st: st['rq_len'] > 0, lambda st: {}))
        me.append((L + 4, L + 6, lambda st: st['rq_len'] <= 0, lambda st: {}))
        me.append((L + 5, L + 4, lambda st: st['rq_len'] > 0, lambda st, c=c: {**q_get(st, 'rq'), **insert_drain(st, c, st['rq_0']), 'c_nres': st['c_nres'] + I(1)}))
        me.append((L + 5, L + 6, lambda st: st['rq_len'] <= 0, lambda st: {}))
        me.append((L + 6, L + 7, lambda st: T, lambda st: {'lock': I(-1)}))
        me.append((L + 7, L + 9, lambda st: st['c_nres'] > 0, lambda st: {}))
        me.append((L + 7, L + 8, lambda st: st['c_nres'] <= 0, lambda st: {}))
        me.append((L + 8, L + 9, lambda st: st['rq_len'] > 0, lambda st, c=c: {**q_get(st, 'rq'), **insert_drain(st, c, st['rq_0'])}))
        if RQMAX is None:
            me.append((L + 9, L + 10, lambda st, c=c: z3.Not(st[f'run{c}']), lambda st: {}))
            me.append((L + 9, L, lambda st, c=c: st[f'run{c}'], lambda st: {}))
            me.append((L + 10, L, lambda st: T, lambda st, c=c: {f'run{c}': z3.BoolVal(True)}))
        else:
            def blen(st, c=c):
                e = I(0)
                for j in range(NCH): e = e + z3.If(st[f'buf{c}_{j}'], I(1), I(0))
                return e
            me.append((L + 9, L, lambda st, c=c: blen(st) >= RQMAX, lambda st, c=c: {f'run{c}': z3.BoolVal(False)}))
            me.append((L + 9, L + 10, lambda st, c=c: z3.And(blen(st) < RQMAX, z3.Not(st[f'run{c}'])), lambda st: {}))
            me.append((L + 9, L, lambda st, c=c: z3.And(blen(st) < RQMAX, st[f'run{c}']), lambda st: {}))
            me.append((L + 10, L, lambda st: T, lambda st, c=c: {f'run{c}': z3.BoolVal(True)}))
        me.append((L + 11, L + 12, lambda st: T, lambda st, c=c: {f'stop{c}': z3.BoolVal(True)}))
        ffinal = 9 if FIXB else 8
        me.append((L + 12, L + 13, lambda st, c=c, ffinal=ffinal: st[f'pc_f{c}'] == ffinal, lambda st: {}))
        if Q:
            me.append((L + 13, L + 14, lambda st: T, lambda st: q_put(st, 'pq', I(NONE))))
            me.append((L + 14, L + 15, lambda st: T, lambda st, c=c: {f'rstop{c}': z3.BoolVal(True)}))
            me.append((L + 15, L + 16, lambda st, c=c: st[f'pc_r{c}'] == 6, lambda st: {}))
        else:
            me.append((L + 13, L + 16, lambda st: T, lambda st: {}))
        pc = L + 16
    # pool exit: put None x W, join procs
    for i in range(W):
        me.append((pc, pc + 1, lambda st: st['wq_len'] < WQMAX, lambda st: q_put(st, 'wq', I(NONE)))); pc += 1
    for i in range(W):
        def fin_i(st, i=i): return z3.Or([z3.And(st[f'procs_{i}'] == w, st[f'pc_w{w}'] == 7) for w in range(NW)])
        me.append((pc, pc + 1, fin_i, lambda st: {})); pc += 1
    S.thread('main', me, pc, None)
    S.NCH, S.CALLS, S.NW = NCH, CALLS, NW
    return S

class Track(dict):
    def __init__(self, d): super().__init__(d); self.reads = set()
    def __getitem__(self, k): self.reads.add(k); return super().__getitem__(k)

def mk(name, sort, k): return z3.Bool(f'{name}@{k}') if sort == 'bool' else z3.BitVec(f'{name}@{k}', BW)

def bmc(S, K, queries, timeout, threads=1, CB=None):
    allv = {v: so for v, (so, _) in S.vars.items()}
    for (tn, _, _, _) in S.threads: allv['pc_' + tn] = 'int'
    stx = {v: mk(v, so, 'x') for v, so in allv.items()}
    RW = {}
    for ti, (tn, edges, _, sv) in enumerate(S.threads):
        for ei, (src, dst, g, u) in enumerate(edges):
            t = Track(stx); g(t); upd = u(t)
            R = set(t.reads) | {'pc_' + tn} | ({sv} if (sv and src == 0) else set()); Wr = set(upd.keys()) | {'pc_' + tn}
            RW[(ti, ei)] = (R, Wr)
    if threads > 1: z3.set_param('sat.threads', threads)
    results = {}
    for qname in queries:
        s = z3.Then('simplify', 'propagate-values', 'solve-eqs', 'bit-blast', 'sat').solver()
        for p in S.params: s.add(p >= 0, p <= S.NCH)
        st = {v: mk(v, so, 0) for v, so in allv.items()}
        for v, (so, init) in S.vars.items(): s.add(st[v] == (z3.BoolVal(init) if so == 'bool' else I(init)))
        for (tn, _, _, _) in S.threads: s.add(st['pc_' + tn] == 0)
        prev = None; deads = []; npor = 0; cs = I(0); prev_tid = None
        for k in range(K):
            sels = {}; en_any = []; tid = z3.BitVec(f'tid@{k}', BW); en_thr = {}
            for ti, (tn, edges, _, sv) in enumerate(S.threads):
                for ei, (src, dst, g, u) in enumerate(edges):
                    en = z3.And(st['pc_' + tn] == src, g(st))
                    if sv and src == 0: en = z3.And(en, st[sv])
                    en_any.append(en); en_thr.setdefault(ti, []).append(en)
                    b = z3.Bool(f'sel_{ti}_{ei}@{k}'); s.add(b == z3.And(tid == ti, en)); sels[(ti, ei)] = (b, u(st), tn, dst)
            anyen = z3.Or(en_any); deads.append(z3.Not(anyen))
            RRv = os.environ.get('RR')
            if RRv is not None and prev_tid is not None:
                cs = z3.If(z3.And(z3.ULT(tid, prev_tid), anyen), cs + I(1), cs)
                s.add(z3.ULE(cs, I(int(RRv))))
            CBv = os.environ.get('CB')
            if CBv is not None and prev_tid is not None:
                # preemption: previous thread still enabled now but another thread runs
                prev_enabled = z3.Or([z3.And(prev_tid == ti, z3.Or(en_thr.get(ti, [z3.BoolVal(False)]))) for ti in range(len(S.threads))])
                cs = z3.If(z3.And(tid != prev_tid, prev_enabled, anyen), cs + I(1), cs)
                s.add(z3.ULE(cs, I(int(CBv))))
            prev_tid = tid
            bl = [x[0] for x in sels.values()]
            s.add(z3.Implies(anyen, z3.Or(bl)))
            nst = {}
            for v, so in allv.items():
                e = st[v]
                for (b, upd, tn, dst) in sels.values():
                    if v == 'pc_' + tn: e = z3.If(b, I(dst), e)
                    elif v in upd: e = z3.If(b, upd[v], e)
                nv = mk(v, so, k + 1); s.add(nv == e); nst[v] = nv
            if prev is not None:
                for (t1, e1), x1 in prev.items():
                    for (t2, e2), x2 in sels.items():
                        if t2 < t1:
                            R1, W1 = RW[(t1, e1)]; R2, W2 = RW[(t2, e2)]
                            if not ((R1 | W1) & W2) and not ((R2 | W2) & W1):
                                s.add(z3.Not(z3.And(x1[0], x2[0]))); npor += 1
            prev = sels; st = nst
        last = st
        main_final = [t for t in S.threads if t[0] == 'main'][0][2]
        done = last['pc_main'] == main_final
        correct = z3.And(z3.Not(last['bad']), *[z3.And(last[f'out{c}_len'] == S.params[c], *[z3.Implies(S.params[c] > j, last[f'out{c}_{j}'] == j) for j in range(S.NCH)]) for c in range(S.CALLS)])
        payload_left = z3.Or([z3.And(last['rq_len'] > j, last[f'rq_{j}'] != TOKEN) for j in range(3)])
        q = {'safety': z3.And(done, z3.Or(z3.Not(correct), payload_left)),
             'deadlock': z3.And(z3.Not(done), deads[-1]),
             'unwind': z3.And(z3.Not(done), z3.Not(deads[-1])),
             'witness': z3.And(done, correct, *[p == S.NCH for p in S.params])}[qname]
        s.add(q); s.set('timeout', timeout * 1000)
        t0 = time.time(); r = s.check(); dt = time.time() - t0
        results[qname] = (str(r), round(dt, 1))
        print(f"  {qname}: {r} in {dt:.1f}s (K={K}, por={npor})", flush=True)
        if str(r) == 'sat' and qname != 'witness':
            m = s.model(); tr = []
            for k in range(K):
                for (ti, ei), (b, _, tn, dst) in sels.items(): pass
            names = [t[0] for t in S.threads]
            for k in range(K):
                for ti, (tn, edges, _, _) in enumerate(S.threads):
                    for ei in range(len(edges)):
                        if z3.is_true(m.eval(z3.Bool(f'sel_{ti}_{ei}@{k}'), model_completion=True)): tr.append(f"{tn}:{edges[ei][0]}>{edges[ei][1]}")
            print("   params", [m.eval(p) for p in S.params], "trace", ' '.join(tr))
    return results

if __name__ == '__main__':
    import argparse
    ap = argparse.ArgumentParser()
    ap.add_argument('--W', type=int, default=1); ap.add_argument('--Q', type=int, default=0); ap.add_argument('--calls', type=int, default=1)
    ap.add_argument('--nch', type=int, default=2); ap.add_argument('--K', type=int, default=70); ap.add_argument('--fix', default='')
    ap.add_argument('--rqmax', type=int, default=None); ap.add_argument('--q', default='safety,deadlock,unwind,witness'); ap.add_argument('--to', type=int, default=600)
    ap.add_argument('--threads', type=int, default=1)
    a = ap.parse_args()
    S = build_system(a.W, a.Q, a.calls, a.nch, 'A' in a.fix, 'B' in a.fix, 'C' in a.fix, a.rqmax)
    print(f"W={a.W} Q={a.Q} calls={a.calls} nch<={a.nch} fix={a.fix} rqmax={a.rqmax} vars={len(S.vars)} threads={len(S.threads)} edges={sum(len(t[1]) for t in S.threads)}")
    bmc(S, a.K, a.q.split(','), a.to, a.threads)
