"""C11 - line files: indexing, slicing and iteration return exactly the file's lines.

The file content is a SYMBOLIC str living in SymFS. One job fixes the *shape* of the content: its length and, per
position, the class of the character - 'n' = "\\n", '1'..'4' = any code point whose UTF-8 encoding has that many
bytes (class 1 contains "\\r", NUL, ...; surrogates excluded). Inside a job every character is a solver variable.
Reference: the lines are the slices between the newline positions (an unterminated last line counts, a final "\\n"
adds none). Replays write the counterexample content to a real temporary file and use the real open()/mmap.
"""
import windpyutils.files as wf
from windpyutils.files import (RandomLineAccessFile, MemoryMappedRandomLineAccessFile, MutableRandomLineAccessFile,
                               MutableMemoryMappedRandomLineAccessFile, RecordFile, MemoryMappedRecordFile, Record)

from vf import h
from vf.xh.engine import Job
from vf.xh import symfs


class IdRecord(Record):
    """identity record: load(line) keeps the line (record-file variants 'while unmodified')"""

    def __init__(self, s):
        self.s = s

    @classmethod
    def load(cls, s):
        return cls(s)

    def save(self):
        return self.s

    def __eq__(self, other):
        return isinstance(other, IdRecord) and self.s == other.s


META = {
    "level": "other",
    "explanation": "Bounded symbolic execution (CrossHair/z3) of the real line-file classes on a stub file system whose "
                   "file content is a symbolic str: every character of the content is a solver variable inside its "
                   "UTF-8 length class, indices/slice bounds/offset selections are solver variables, interleavings of "
                   "iteration and random access on one object are enumerated as op-code words with symbolic arguments. "
                   "Counterexamples are replayed on real temporary files with the real open()/mmap.",
    "bounds": {"quick": {"content_length": "<=2 all shapes over {\\n,1,2,3,4-byte}; 7 selected shapes of length 3",
                         "interleaving_words": "<=3 ops"},
               "thorough": {"content_length": "<=3 all shapes; length 4 over {\\n,1-byte,3-byte}; two 4-line shapes (7-8 chars) for indexing and 4-entry custom indexes",
                            "interleaving_words": "<=4 ops"}},
    "outside_bounds": ["longer contents", "lone surrogates (not encodable)", "I/O buffer boundaries of CPython's "
                       "TextIOWrapper/BufferedReader (the stub models their documented semantics, validated "
                       "differentially on every run)", "encodings other than UTF-8", "OS-level I/O errors"],
    "assumptions": ["SymFS models open()/mmap/readline/seek/tell as documented (validated against the real ones on 264 "
                    "concrete contents in every run; counterexamples are replayed on real files)",
                    "CrossHair 'Confirmed over all paths' / z3 unsat are trusted"],
    "stubs": ["SymFS: open, mmap.mmap, os.getpid/remove, tempfile, print replaced in the namespace of windpyutils.files"],
    "functions": ["windpyutils/files.py:BaseRandomLineAccessFile.%s" % m for m in
                  ["__init__", "__enter__", "__exit__", "__len__", "__iter__", "__getitem__", "_get_item"]] +
                 ["windpyutils/files.py:RandomLineAccessFile.%s" % m for m in
                  ["__init__", "read_index_from_file", "_index_file", "open", "close", "reopen_if_needed", "closed",
                   "_file_seek", "_read_line", "_read_next_line"]] +
                 ["windpyutils/files.py:MemoryMappedRandomLineAccessFile.%s" % m for m in
                  ["__init__", "open", "close", "_file_seek", "_read_line", "_read_next_line"]] +
                 ["windpyutils/files.py:BaseMutableRandomLineAccessFile._get_item", "windpyutils/files.py:BaseRecordFile._get_item"],
}

VARIANTS = {
    "text": lambda p, idx=None: RandomLineAccessFile(p, idx),
    "mmap": lambda p, idx=None: MemoryMappedRandomLineAccessFile(p, idx),
    "mtext": lambda p, idx=None: MutableRandomLineAccessFile(p, idx),
    "mmmap": lambda p, idx=None: MutableMemoryMappedRandomLineAccessFile(p, idx),
}


def shape_ok(content):
    shape = h.P["shape"]
    if len(content) != len(shape):
        return False
    k = 0
    for ch in content:
        c = shape[k]
        o = ord(ch)
        if c == "n":
            if o != 10:
                return False
        elif o == 10:
            return False
        elif c == "1":
            if not (o < 0x80):
                return False
        elif c == "2":
            if not (0x80 <= o < 0x800):
                return False
        elif c == "3":
            if not (0x800 <= o < 0x10000) or (0xD800 <= o < 0xE000):
                return False
        elif c == "4":
            if not (0x10000 <= o):
                return False
        k += 1
    return True


def _lines(content):
    shape = h.P["shape"]
    out = []
    start = 0
    for k in range(len(shape)):
        if shape[k] == "n":
            out.append(content[start:k])
            start = k + 1
    if start < len(shape):
        out.append(content[start:])
    return out


def _open(fs, content, variant=None, idx=None):
    p = fs.put("data.txt", content)
    f = VARIANTS[variant or h.P["variant"]](p, idx)
    return f, p


def basic(content: str, i: int) -> bool:
    """
    pre: shape_ok(content)
    pre: -len(h.P['shape']) - 2 <= i <= len(h.P['shape']) + 1
    post: _
    """
    fs = symfs.make_fs(wf, h.MODE)
    try:
        lines = _lines(content)
        n = len(lines)
        variant = h.P["variant"]
        if n == 0 and variant in ("mmap", "mmmap"):
            return h.ok()  # the OS cannot memory-map an empty file (outside the property)
        f, p = _open(fs, content)
        if len(f) != n:
            return h.fail("len")
        try:
            f[0]
            return h.fail("read-on-closed-file-allowed")
        except RuntimeError:
            pass
        except IndexError:
            if n != 0:
                return h.fail("closed:indexerror")
        with f:
            try:
                r = f[i]
            except IndexError:
                if -n <= i < n:
                    return h.fail("getitem:indexerror-inside")
                r = None
            else:
                if not (-n <= i < n):
                    return h.fail("getitem:accepts-out-of-range")
                if r != lines[i]:
                    return h.fail("getitem:wrong-line")
            got = list(f)
            if got != lines:
                return h.fail("iter:differs-from-lines")
            if len(f) != n:
                return h.fail("len-after")
        if not f.closed:
            return h.fail("not-closed-after-with")
        if fs.content(p) != content:
            return h.fail("source-changed")
        return h.ok()
    finally:
        fs.cleanup()


def records(content: str, i: int) -> bool:
    """
    pre: shape_ok(content)
    pre: 0 <= i < max(1, len(h.P['shape']))
    post: _
    """
    fs = symfs.make_fs(wf, h.MODE)
    try:
        lines = _lines(content)
        n = len(lines)
        p = fs.put("data.txt", content)
        cls = RecordFile if h.P["variant"] == "text" else MemoryMappedRecordFile
        if n == 0 and cls is MemoryMappedRecordFile:
            return h.ok()
        f = cls(p, IdRecord)
        with f:
            if len(f) != n:
                return h.fail("records:len")
            if i < n and not (f[i] == IdRecord(lines[i])):
                return h.fail("records:getitem")
            got = list(f)
            if len(got) != n:
                return h.fail("records:iter-len")
            for a, b in zip(got, lines):
                if not (a == IdRecord(b)):
                    return h.fail("records:iter")
            sl = f[0:n]
            for a, b in zip(sl, lines):
                if not (a == IdRecord(b)):
                    return h.fail("records:slice")
        return h.ok()
    finally:
        fs.cleanup()


def slices(content: str, i: int, j: int) -> bool:
    """
    pre: shape_ok(content)
    pre: 0 <= i < max(1, len(h.P['shape'])) and 0 <= j < max(1, len(h.P['shape']))
    post: _
    """
    # slice bounds are enumerated inside the job (the selector dispatch is plain range arithmetic on len);
    # the content is symbolic, index lists use symbolic positions
    fs = symfs.make_fs(wf, h.MODE)
    try:
        lines = _lines(content)
        n = len(lines)
        if n == 0 and h.P["variant"] in ("mmap", "mmmap"):
            return h.ok()
        f, p = _open(fs, content)
        with f:
            for step in (1, 2, -1):
                for a in [None] + list(range(-n - 1, n + 2)):
                    for b in [None] + list(range(-n - 1, n + 2)):
                        if f[a:b:step] != lines[a:b:step]:
                            return h.fail("slice:differs")
            if n > 0 and i < n and j < n:
                if f[[i, j]] != [lines[i], lines[j]]:
                    return h.fail("index-list:differs")
                if f[(k for k in (j, i))] != [lines[j], lines[i]]:
                    return h.fail("index-generator:differs")
                if f[range(i, n)] != lines[i:]:
                    return h.fail("index-range:differs")
            if f[[]] != []:
                return h.fail("index-list:empty")
        return h.ok()
    finally:
        fs.cleanup()


def custom_index(content: str, p0: int, p1: int, p2: int, p3: int, q: int) -> bool:
    """
    pre: shape_ok(content)
    pre: 0 <= p0 < max(1, len(h.P['shape'])) and 0 <= p1 < max(1, len(h.P['shape'])) and 0 <= p2 < max(1, len(h.P['shape']))
    pre: 0 <= p3 < max(1, len(h.P['shape'])) and -5 <= q <= 4
    post: _
    """
    # a caller-supplied offset index (subset / permutation / repetition of the true line offsets) is honoured
    fs = symfs.make_fs(wf, h.MODE)
    try:
        lines = _lines(content)
        n = len(lines)
        k = h.P["k"]
        source = h.P["source"]
        variant = h.P["variant"]
        if n == 0:
            return h.ok()
        sel = [p0, p1, p2, p3][:k]
        for s in sel:
            if s >= n:
                return True
        p = fs.put("data.txt", content)
        true_offsets = list(RandomLineAccessFile(p)._lines)
        if len(true_offsets) != n:
            return h.fail("index:len")
        offs = [true_offsets[s] for s in sel]
        exp = [lines[s] for s in sel]
        if source == "file":
            ip = fs.put("data.index", "".join(str(o) + "\n" for o in offs))
            f = VARIANTS[variant](p, ip)
        else:
            f = VARIANTS[variant](p, offs)
        with f:
            if len(f) != k:
                return h.fail("custom-index:len")
            try:
                r = f[q]
            except IndexError:
                if -k <= q < k:
                    return h.fail("custom-index:indexerror-inside")
            else:
                if not (-k <= q < k):
                    return h.fail("custom-index:accepts-out-of-range")
                if r != exp[q]:
                    return h.fail("custom-index:getitem-ignores-index")
            if list(f) != exp:
                return h.fail("custom-index:iteration-ignores-index")
            if f[:] != exp:
                return h.fail("custom-index:slice")
        return h.ok()
    finally:
        fs.cleanup()


def interleave(content: str, i0: int, i1: int, i2: int, i3: int) -> bool:
    """
    pre: shape_ok(content)
    pre: 0 <= i0 < max(1, len(h.P['shape'])) and 0 <= i1 < max(1, len(h.P['shape']))
    pre: 0 <= i2 < max(1, len(h.P['shape'])) and 0 <= i3 < max(1, len(h.P['shape']))
    post: _
    """
    # op-code word over: A/B = next() on iterator 1/2 (created on first use), g = f[i] with symbolic i
    fs = symfs.make_fs(wf, h.MODE)
    try:
        lines = _lines(content)
        n = len(lines)
        if n == 0:
            return h.ok()
        word = h.P["word"]
        idx = [i0, i1, i2, i3]
        for t in range(len(word)):
            if word[t] == "g" and idx[t] >= n:
                return True
        f, p = _open(fs, content)
        with f:
            its = {}
            pos = {"A": 0, "B": 0}
            for t in range(len(word)):
                op = word[t]
                if op == "g":
                    if f[idx[t]] != lines[idx[t]]:
                        return h.fail("interleave:getitem-wrong")
                else:
                    if op not in its:
                        its[op] = iter(f)
                    try:
                        v = next(its[op])
                    except StopIteration:
                        if pos[op] < n:
                            return h.fail("interleave:iterator-ends-early")
                        continue
                    if pos[op] >= n:
                        return h.fail("interleave:iterator-too-long")
                    if v != lines[pos[op]]:
                        return h.fail("interleave:iterator-yields-wrong-line")
                    pos[op] += 1
            # drain what is left of every iterator
            for op in its:
                rest = list(its[op])
                if rest != lines[pos[op]:]:
                    return h.fail("interleave:iterator-rest-wrong")
        return h.ok()
    finally:
        fs.cleanup()


def post(out, tier, seed):
    n, bad = symfs.validate()
    out.extra["symfs_validation"] = {"contents_compared_with_real_open_and_mmap": n, "mismatches": len(bad)}
    if bad:
        out.harness_errors.append("SymFS disagrees with the real file API: %r" % (bad[0],))


def _shapes(L, alphabet):
    out = [""]
    for _ in range(L):
        out = [o + c for o in out for c in alphabet]
    return out


def _words(maxlen):
    out = []

    def rec(w):
        if len(w) >= 2 and ("A" in w) and ("g" in w or "B" in w):
            out.append(w)
        if len(w) < maxlen:
            for c in "ABg":
                if c == "B" and "A" not in w:
                    continue  # iterator names are symmetric: B only after A
                rec(w + c)

    rec("")
    return out


def shapes_for(tier):
    full = "n1234"
    small = "n13"
    sh = []
    if tier == "quick":
        for L in range(0, 3):
            sh += _shapes(L, full)
        sh += ["1n1", "nn1", "n1n", "1nn", "3n1", "1n3", "2n4"]
    else:
        for L in range(0, 4):
            sh += _shapes(L, full)
        sh += _shapes(4, small)
        sh += ["1n1n1n1", "1n1n1n3n"]  # four distinguishable lines (only basic + 4-entry custom index jobs)
    return sh


def jobs(tier):
    out = []
    T = 900
    shapes = shapes_for(tier)
    words = _words(3 if tier == "quick" else 4)
    for sh in shapes:
        nl = sh.count("n") + (1 if sh and not sh.endswith("n") else 0)
        if len(sh) > 4:
            for v in ("text", "mmap"):
                out.append(Job("C11", "harness.c11", "basic", {"shape": sh, "variant": v}, timeout=3000, name="basic[%s,%s]" % (v, sh)))
                out.append(Job("C11", "harness.c11", "custom_index", {"shape": sh, "variant": v, "k": 4, "source": "list"},
                               timeout=3000, name="custom_index[%s,%s,k=4,list]" % (v, sh)))
            continue
        for v in VARIANTS:
            out.append(Job("C11", "harness.c11", "basic", {"shape": sh, "variant": v}, timeout=T, name="basic[%s,%s]" % (v, sh or "-")))
        for v in ("text", "mmap"):
            out.append(Job("C11", "harness.c11", "records", {"shape": sh, "variant": v}, timeout=T, name="records[%s,%s]" % (v, sh or "-")))
        if nl >= 1:
            for v in ("text", "mmap"):
                out.append(Job("C11", "harness.c11", "slices", {"shape": sh, "variant": v}, timeout=T,
                               name="slices[%s,%s]" % (v, sh)))
                for k in range(0, min(nl, 2) + 2):
                    for source in ("list", "file"):
                        if source == "file" and v == "mmap" and k != 2:
                            continue
                        out.append(Job("C11", "harness.c11", "custom_index", {"shape": sh, "variant": v, "k": k, "source": source},
                                       timeout=T, name="custom_index[%s,%s,k=%d,%s]" % (v, sh, k, source)))
        if tier != "quick" and nl >= 4:
            for v in ("text", "mmap"):
                out.append(Job("C11", "harness.c11", "custom_index", {"shape": sh, "variant": v, "k": 4, "source": "list"},
                               timeout=3000, name="custom_index[%s,%s,k=4,list]" % (v, sh)))
        if nl >= 2:
            for v in ("text", "mmap"):
                for w in words:
                    out.append(Job("C11", "harness.c11", "interleave", {"shape": sh, "variant": v, "word": w}, timeout=T,
                                   name="interleave[%s,%s,%s]" % (v, sh, w)))
    return out
