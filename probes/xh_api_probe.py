import loader, time, sys, z3
from crosshair.core_and_libs import analyze_function, run_checkables, AnalysisKind, MessageType
from crosshair.options import AnalysisOptionSet
from crosshair.options import DEFAULT_OPTIONS
# count solver calls
_n = [0, 0.0]; _orig = z3.Solver.check
def _chk(self, *a):
    t = time.time(); r = _orig(self, *a); _n[0] += 1; _n[1] += time.time() - t; return r
z3.Solver.check = _chk
from windpyutils.structures.caches import LRUCache
import windpyutils.structures.caches as C
print("module file:", C.__file__, "cache type:", type(LRUCache(2).cache).__name__)
def step(cap: int, k0: int, k1: int, k: int, v: int) -> bool:
    """
    pre: cap == CAP
    pre: k0 != k1
    post: _
    """
    c = LRUCache(cap); c[k1] = 1; c[k0] = 0
    c[k] = v
    ks = list(c)
    exp = [k] + [x for x in ([k0, k1] if cap >= 2 else [k0]) if not (x == k)]
    exp = exp[:cap]
    if len(ks) != len(exp): return False
    for a, b in zip(ks, exp):
        if not (a == b): return False
    return True
for CAP in (1, 2, 3):
    step.__doc__ = step.__doc__.replace("CAP", str(CAP)) if "CAP" in step.__doc__ else step.__doc__
    globals()['CAP'] = CAP
    t = time.time()
    opts = AnalysisOptionSet(analysis_kind=[AnalysisKind.PEP316], per_condition_timeout=60, report_all=True)
    checkables = analyze_function(step, opts)
    msgs = run_checkables(checkables)
    print(CAP, [(m.state.name, m.message[:80]) for m in msgs], round(time.time() - t, 1), "s; solver calls", _n)
    break
