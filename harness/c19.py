"""C19 - generic sequence helpers equal their brute-force definitions.

roman    : every n in 1..3999 (ranges in parallel, n symbolic inside a range): int_2_roman(n) == digit-table numeral
           and roman_2_int(int_2_roman(n)) == n  (both directions follow: the table numerals are exactly the images)
arg_sort : symbolic int lists (length fixed per job, repeats allowed), symbolic `reverse`: permutation, keys ordered,
           equal keys keep index order (stable, also for reverse=True)
sub_seq / search_sub_seq : symbolic int sequences, lengths fixed per job: window definition, overlapping occurrences,
           ValueError for empty input
compare_pos_in_iterables : multiset equality
Batcher / BatcherIter : data = list(range(n)), n and batch_size symbolic: batches are consecutive slices, all of size
           batch_size except a shorter non-empty last one, len == ceil(n / batch_size), IndexError past the end, tuples
           batched in lock-step. len() uses float division; CrossHair treats it as real division, so a bit-precise
           floating-point lemma (z3, QF_BVFP) ties ceil(fp.div(n, bs)) to (n + bs - 1) // bs for all 0 < n, bs < 2^B.
"""
import subprocess
import sys
import time

from windpyutils.generic import (int_2_roman, roman_2_int, arg_sort, sub_seq, search_sub_seq, compare_pos_in_iterables,
                                 Batcher, BatcherIter)

from vf import h
from vf.xh.engine import Job

META = {
    "level": "other",
    "explanation": "Bounded symbolic execution (CrossHair/z3) of the real helper functions with symbolic arguments, "
                   "compared with independent brute-force definitions; roman numerals are covered for the complete "
                   "domain 1..3999; Batcher.__len__'s float division is tied to integer ceil-division by a separate "
                   "bit-precise z3 floating-point lemma.",
    "bounds": {"quick": {"roman": "1..3999 (complete)", "arg_sort_len": "<=4", "sub_seq": "|s1|<=3,|s2|<=4",
                         "compare_pos": "<=3", "batcher": "n<=7, batch_size<=8", "fp_lemma_bits": 8},
               "thorough": {"roman": "1..3999 (complete)", "arg_sort_len": "<=5", "sub_seq": "|s1|<=3,|s2|<=5",
                            "compare_pos": "<=4", "batcher": "n<=9, batch_size<=10", "fp_lemma_bits": 12}},
    "outside_bounds": ["sequences longer than the bounds", "element types other than int (only == / < are used)",
                       "Batcher lengths or batch sizes >= 2^B for len() (for n >= 2^53 the float quotient can round to "
                       "an integer and len would be one short; not claimed either way)", "roman numerals outside 1..3999"],
    "assumptions": ["CrossHair models the float in math.ceil(n / bs) as a real; the IEEE-754 behaviour is covered by the "
                    "separate QF_BVFP lemma up to B bits", "CrossHair 'Confirmed over all paths' / z3 unsat are trusted"],
    "stubs": [],
    "functions": ["windpyutils/generic.py:" + f for f in
                  ["int_2_roman", "roman_2_int", "arg_sort", "sub_seq", "search_sub_seq", "compare_pos_in_iterables",
                   "Batcher.__init__", "Batcher.__len__", "Batcher.__getitem__", "BatcherIter.__init__",
                   "BatcherIter.__iter__"]],
}

_TH = ["", "M", "MM", "MMM"]
_HU = ["", "C", "CC", "CCC", "CD", "D", "DC", "DCC", "DCCC", "CM"]
_TE = ["", "X", "XX", "XXX", "XL", "L", "LX", "LXX", "LXXX", "XC"]
_ON = ["", "I", "II", "III", "IV", "V", "VI", "VII", "VIII", "IX"]


def roman(n: int) -> bool:
    """
    pre: h.P['lo'] <= n <= h.P['hi']
    post: _
    """
    r = int_2_roman(n)
    exp = _TH[n // 1000] + _HU[(n // 100) % 10] + _TE[(n // 10) % 10] + _ON[n % 10]
    if r != exp:
        return h.fail("roman:not-canonical")
    if roman_2_int(r) != n:
        return h.fail("roman:not-inverse")
    if roman_2_int(exp) != n:
        return h.fail("roman:roman_2_int-of-canonical")
    return h.ok()


def argsort(x0: int, x1: int, x2: int, x3: int, x4: int, reverse: bool) -> bool:
    """
    post: _
    """
    n = h.P["n"]
    xs = [x0, x1, x2, x3, x4][:n]
    r = arg_sort(xs, reverse)
    if len(r) != n:
        return h.fail("arg_sort:len")
    seen = [False] * n
    for i in r:
        if not (0 <= i < n) or seen[i]:
            return h.fail("arg_sort:not-a-permutation")
        seen[i] = True
    for a, b in zip(r, r[1:]):
        if reverse:
            if xs[a] < xs[b]:
                return h.fail("arg_sort:not-descending")
        else:
            if xs[a] > xs[b]:
                return h.fail("arg_sort:not-ascending")
        if xs[a] == xs[b] and not (a < b):
            return h.fail("arg_sort:not-stable")
    r2 = arg_sort(xs)
    if not reverse and r2 != r:
        return h.fail("arg_sort:default-reverse")
    return h.ok()


def subseq(a0: int, a1: int, a2: int, b0: int, b1: int, b2: int, b3: int, b4: int) -> bool:
    """
    post: _
    """
    la, lb = h.P["la"], h.P["lb"]
    form = h.P["form"]
    s1 = [a0, a1, a2][:la]
    s2 = [b0, b1, b2, b3, b4][:lb]
    if form == "tuple":
        s1, s2 = tuple(s1), tuple(s2)
    occ = []
    for off in range(0, lb - la + 1):
        match = True
        for k in range(la):
            if not (s1[k] == s2[off + k]):
                match = False
                break
        if match:
            occ.append((off, off + la))
    exp_sub = la <= lb and len(occ) > 0
    if sub_seq(s1, s2) != exp_sub:
        return h.fail("sub_seq:wrong")
    if la == 0 or lb == 0:
        try:
            search_sub_seq(s1, s2)
        except ValueError:
            return h.ok()
        return h.fail("search_sub_seq:no-valueerror-on-empty")
    r = search_sub_seq(s1, s2)
    if r != occ:
        return h.fail("search_sub_seq:wrong-occurrences")
    return h.ok()


def compare_pos(a0: int, a1: int, a2: int, a3: int, b0: int, b1: int, b2: int, b3: int) -> bool:
    """
    post: _
    """
    la, lb = h.P["la"], h.P["lb"]
    a = [a0, a1, a2, a3][:la]
    b = [b0, b1, b2, b3][:lb]
    r = compare_pos_in_iterables(iter(a), iter(b)) if h.P.get("iters") else compare_pos_in_iterables(a, b)
    exp = la == lb
    if exp:
        for x in a:
            ca = 0
            for y in a:
                if y == x:
                    ca += 1
            cb = 0
            for y in b:
                if y == x:
                    cb += 1
            if ca != cb:
                exp = False
                break
    if r != exp:
        return h.fail("compare_pos_in_iterables:wrong")
    return h.ok()


def batcher(n: int, bs: int, idx: int) -> bool:
    """
    pre: 0 <= n <= h.P['N']
    pre: -1 <= bs <= h.P['B']
    post: _
    """
    kind = h.P["kind"]
    data = list(range(n))
    data2 = [100 + x for x in data]
    arg = data if kind == "single" else (data, data2)
    if bs <= 0:
        for cls in (Batcher, BatcherIter):
            try:
                cls(arg, bs)
            except ValueError:
                continue
            return h.fail("batcher:accepts-nonpositive-batch-size")
        return h.ok()
    b = Batcher(arg, bs)
    nb = (n + bs - 1) // bs
    if len(b) != nb:
        return h.fail("batcher:len")
    cat = []
    cat2 = []
    for i in range(nb):
        x = b[i]
        if kind == "single":
            part = x
        else:
            if not (isinstance(x, tuple) and len(x) == 2):
                return h.fail("batcher:tuple-shape")
            part, part2 = x
            if list(part2) != [100 + v for v in part]:
                return h.fail("batcher:not-lock-step")
            cat2.extend(part2)
        if i < nb - 1 and len(part) != bs:
            return h.fail("batcher:batch-size")
        if i == nb - 1 and not (1 <= len(part) <= bs):
            return h.fail("batcher:last-batch")
        if list(part) != data[i * bs:(i + 1) * bs]:
            return h.fail("batcher:not-consecutive")
        cat.extend(part)
    if cat != data:
        return h.fail("batcher:concatenation")
    try:
        b[nb + idx if idx >= 0 else nb]
    except IndexError:
        pass
    else:
        return h.fail("batcher:no-indexerror-past-end")
    # the iterable variant yields the same batches
    got = list(BatcherIter(iter(data) if kind == "single" else (iter(data), iter(data2)), bs))
    if len(got) != nb:
        return h.fail("batcheriter:count")
    for i in range(nb):
        if kind == "single":
            if got[i] != data[i * bs:(i + 1) * bs]:
                return h.fail("batcheriter:batch")
        else:
            if not (isinstance(got[i], tuple) and len(got[i]) == 2):
                return h.fail("batcheriter:tuple-shape")
            if got[i][0] != data[i * bs:(i + 1) * bs] or got[i][1] != data2[i * bs:(i + 1) * bs]:
                return h.fail("batcheriter:batch")
    return h.ok()


def batcher_diff_len(n: int, m: int) -> bool:
    """
    pre: 0 <= n <= 4 and 0 <= m <= 4
    post: _
    """
    try:
        Batcher((list(range(n)), list(range(m))), 2)
    except ValueError:
        if n == m:
            return h.fail("batcher:valueerror-on-equal-lengths")
        return h.ok()
    if n != m:
        return h.fail("batcher:accepts-different-lengths")
    return h.ok()


LEMMA = r'''
import sys, time, z3
B = int(sys.argv[1])
n, bs = z3.BitVecs('n bs', 64)
s = z3.SolverFor('QF_BVFP')
lim = z3.BitVecVal(1 << B, 64)
s.add(z3.UGT(n, 0), z3.UGT(bs, 0), z3.ULT(n, lim), z3.ULT(bs, lim))
F = z3.Float64()
q = z3.fpDiv(z3.RNE(), z3.fpSignedToFP(z3.RNE(), n, F), z3.fpSignedToFP(z3.RNE(), bs, F))
ci = z3.fpToSBV(z3.RTP(), z3.fpRoundToIntegral(z3.RTP(), q), z3.BitVecSort(64))
if len(sys.argv) > 2 and sys.argv[2] == "witness":
    s.add(ci == z3.UDiv(n + bs - 1, bs), n == 7, bs == 2)  # vacuity guard: the encoding is satisfiable at a known point
else:
    s.add(ci != z3.UDiv(n + bs - 1, bs))
t = time.time(); r = s.check()
print("LEMMA", B, str(r), round(time.time() - t, 2), (str(s.model()) if str(r) == "sat" else ""))
'''


def post(out, tier, seed):
    """The floating-point lemma behind Batcher.__len__ (one more obligation, decided directly by z3)."""
    B = 8 if tier == "quick" else 12
    out.obligations += 1
    res = {}
    for mode in ("witness", "lemma"):
        t0 = time.time()
        try:
            p = subprocess.run([sys.executable, "-c", LEMMA, str(B)] + (["witness"] if mode == "witness" else []),
                               capture_output=True, text=True, timeout=3000)
            line = [x for x in p.stdout.splitlines() if x.startswith("LEMMA")]
            verdict = line[0].split()[2] if line else "error:" + p.stderr[-300:]
        except subprocess.TimeoutExpired:
            verdict = "timeout"
        res[mode] = {"verdict": verdict, "wall_s": round(time.time() - t0, 2)}
        out.stats["solver_calls"] += 1
        out.stats["solver_time_s"] += time.time() - t0
    out.extra["fp_lemma"] = {"bits": B, "statement": "for all 0 < n, bs < 2^B: to_sbv(roundToIntegral(RTP, fp.div(RNE, n, bs))) "
                                                     "== (n + bs - 1) udiv bs  (float64)", "result": res}
    out.job_table.append({"job": "fp_lemma[B=%d]" % B, "verdict": res["lemma"]["verdict"], "wall_s": res["lemma"]["wall_s"],
                          "twin": res["witness"]["verdict"]})
    if res["witness"]["verdict"] != "sat":
        out.harness_errors.append("fp lemma witness query is not sat: %s" % res["witness"]["verdict"])
    elif res["lemma"]["verdict"] == "unsat":
        out.discharged += 1
    elif res["lemma"]["verdict"] == "sat":
        # replay on the real code
        out.harness_errors.append("fp lemma has a model; replay needed: " + str(res))
    else:
        out.inconclusive.append({"job": "fp_lemma[B=%d]" % B, "why": res["lemma"]["verdict"]})
        print("INCONCLUSIVE property=C19 job=fp_lemma (%s)" % res["lemma"]["verdict"], flush=True)


def jobs(tier):
    out = []
    T = 1800
    step = 125
    for lo in range(1, 4000, step):
        hi = min(3999, lo + step - 1)
        out.append(Job("C19", "harness.c19", "roman", {"lo": lo, "hi": hi}, timeout=T, name="roman[%d..%d]" % (lo, hi)))
    q = tier == "quick"
    for n in range(0, (4 if q else 5) + 1):
        out.append(Job("C19", "harness.c19", "argsort", {"n": n}, timeout=T, name="arg_sort[n=%d]" % n))
    for la in range(0, 4):
        for lb in range(0, (4 if q else 5) + 1):
            for form in ("list", "tuple"):
                if form == "tuple" and (la, lb) not in ((1, 2), (2, 3)):
                    continue
                out.append(Job("C19", "harness.c19", "subseq", {"la": la, "lb": lb, "form": form}, timeout=T,
                               name="sub_seq[%s,%d,%d]" % (form, la, lb)))
    L = 3 if q else 4
    for la in range(0, L + 1):
        for lb in range(0, L + 1):
            out.append(Job("C19", "harness.c19", "compare_pos", {"la": la, "lb": lb}, timeout=T,
                           name="compare_pos[%d,%d]" % (la, lb)))
    out.append(Job("C19", "harness.c19", "compare_pos", {"la": 2, "lb": 2, "iters": True}, timeout=T, name="compare_pos[iterators,2,2]"))
    N, B = (7, 8) if q else (9, 10)
    for kind in ("single", "tuple"):
        out.append(Job("C19", "harness.c19", "batcher", {"N": N, "B": B, "kind": kind}, timeout=T, name="batcher[%s,n<=%d,bs<=%d]" % (kind, N, B)))
    out.append(Job("C19", "harness.c19", "batcher_diff_len", {}, timeout=T, name="batcher_diff_len"))
    return out
