"""Replay of a counterexample in plain CPython against the UNMODIFIED modules of /repo (no rewrites, real dict).

usage: python -m vf.replay <replay.json> [--trace]
Prints one JSON line: {"reproduced": bool, "signatures": [...], "exception": str|None, "entered": [...]}
"""
import importlib
import json
import os
import sys
import traceback


def run(spec, trace=False):
    sys.setrecursionlimit(10000)
    from vf.xh import loader
    loader.install(rewrite=False)
    from vf import h
    h.MODE = "replay"
    h.P = dict(spec.get("params", {}))
    h.FAILS.clear()
    mod = importlib.import_module(spec["module"])
    if spec.get("setup"):
        getattr(mod, spec["setup"])()
    fn = getattr(mod, spec["fn"])
    entered = set()
    tool = None
    if trace and hasattr(sys, "monitoring"):
        mon = sys.monitoring
        tool = 3
        try:
            mon.use_tool_id(tool, "vf")

            def on_start(code, off):
                if code.co_filename.startswith(loader.REPO + "/"):
                    entered.add(os.path.relpath(code.co_filename, loader.REPO) + ":" + code.co_qualname)
                return mon.DISABLE

            mon.register_callback(tool, mon.events.PY_START, on_start)
            mon.set_events(tool, mon.events.PY_START)
        except Exception:
            tool = None
    out = {"reproduced": False, "signatures": [], "exception": None, "returned": None}
    try:
        args = spec.get("args") or {}
        conv = getattr(mod, "ARG_CONVERT", None)
        if conv:
            args = conv(spec["fn"], args)
        ret = fn(**args)
        out["returned"] = bool(ret)
        out["signatures"] = list(h.FAILS)
        out["reproduced"] = (not ret) or bool(h.FAILS)
        if not ret and not h.FAILS:
            out["signatures"] = ["returned-false"]
    except Exception as e:  # noqa
        out["reproduced"] = True
        out["exception"] = "".join(traceback.format_exception_only(type(e), e)).strip()[:500]
        tb = traceback.extract_tb(e.__traceback__)
        where = ""
        for fr in reversed(tb):
            if fr.filename.startswith(loader.REPO + "/"):
                where = os.path.relpath(fr.filename, loader.REPO) + ":" + fr.name
                break
        out["signatures"] = list(h.FAILS) + ["exc:%s@%s" % (type(e).__name__, where)]
    finally:
        if tool is not None:
            sys.monitoring.set_events(tool, 0)
            sys.monitoring.free_tool_id(tool)
    out["entered"] = sorted(entered)
    return out


def main():
    path = sys.argv[1]
    with open(path) as f:
        spec = json.load(f)
    out = run(spec, trace="--trace" in sys.argv)
    print("REPLAY-RESULT " + json.dumps(out))
    if "--human" in sys.argv:
        print("harness   :", spec["module"] + "." + spec["fn"], "params", spec.get("params"))
        print("arguments :", spec.get("args"))
        print("expected  : harness returns True (property holds)")
        print("observed  :", "VIOLATED " + ", ".join(out["signatures"]) if out["reproduced"] else "holds (not reproduced)")
        if out["exception"]:
            print("exception :", out["exception"])
    return 0


if __name__ == "__main__":
    sys.exit(main())
