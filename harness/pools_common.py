"""Scenarios and set-up shared by the Engine C checks of the process pools (C01-C05).

`make(cfg, ctx, mode)` builds the REAL objects with the real constructors on a fake multiprocessing context:
 mode "model"  : ctx = vf.bmc.prims.SimContext -> handles for the symbolic VM
 mode "replay" : ctx = vf.bmc.replay.RContext  -> gated real queues/threads for counterexample replay
The scenario functions below are ordinary Python: the VM interprets their bytecode, the replay simply calls them.
"""
import math
import queue
from multiprocessing import Process

import windpyutils.parallel.own_proc_pools as opp
import windpyutils.parallel.pools as pools
import windpyutils.parallel.maps as maps
import windpyutils.parallel.workers as workers_mod
from windpyutils.parallel.maps import mul_p_map
from windpyutils.parallel.own_proc_pools import BaseFunctorWorker, FunctorPool, FactoryFunctorPool, FunctorWorkerFactory

from vf.bmc.intrinsics import (v_param, v_input, v_assert, v_out_is_identity, v_out_is_chunked_permutation,
                               v_queue_payload_free, v_mon_inc, v_mon_get, v_fault, v_thread_done, v_next_worker,
                               v_queue_has_no_none)
from vf.bmc.values import CInt


class IdWorker(Process, BaseFunctorWorker):
    """Same construction as the repository's FunctorWorker(Process, BaseFunctorWorker), on the given context.
    The functor is the identity tag on item ids (items are only moved, never inspected, by the pool)."""

    def __init__(self, ctx, quota=math.inf):
        Process.__init__(self)
        BaseFunctorWorker.__init__(self, ctx, quota)

    def __call__(self, x):
        return x


class LifeWorker(IdWorker):
    """IdWorker with ghost monitors on its lifecycle hooks; begin() / the functor may raise (chosen by the solver)."""

    def begin(self):
        v_mon_inc(self, "begin_calls")
        v_assert(v_mon_get(self, "items") == 0, "item-processed-before-begin")
        if v_fault("begin_raises"):
            raise RuntimeError("begin failed")
        v_mon_inc(self, "begin_done")

    def end(self):
        v_mon_inc(self, "end_calls")

    def __call__(self, x):
        v_assert(v_mon_get(self, "begin_done") == 1, "item-processed-before-begin-completed")
        v_assert(v_mon_get(self, "end_calls") == 0, "item-processed-after-end")
        v_mon_inc(self, "items")
        if v_fault("functor_raises"):
            raise ValueError("functor failed")
        return x


class SpareFactory(FunctorWorkerFactory):
    """Factory handing out pre-built workers (initial ones first, then spares): the VM needs a finite table of objects."""

    def __init__(self, ctx, wcls, quota, total, initial=None, spare_quota=None):
        # the first `initial` workers get `quota`; spares may get another quota (math.inf: they never retire), which keeps the
        # number of replacements - and of modelled processes - at one
        self.all = [wcls(ctx, quota) if (spare_quota is None or initial is None or k < initial) else wcls(ctx, spare_quota)
                    for k in range(total)]
        for k, wk in enumerate(self.all):
            wk._vf_name = "fworker%d" % k
        self.next = 0

    def create(self):
        return v_next_worker(self)


def ident(x):
    return x


# ------------------------------------------------------------------------------------------------ scenarios
def scenario_pool_one_call(pool, cs, nmax, unordered):
    n = v_param("n", 0, nmax)
    out = []
    with pool:
        if unordered:
            for x in pool.imap_unordered(v_input(n), cs):
                out.append(x)
        else:
            for x in pool.imap(v_input(n), cs):
                out.append(x)
    if unordered:
        v_assert(v_out_is_chunked_permutation(out, n, cs), "unordered-results-are-a-chunkwise-permutation")
    else:
        v_assert(v_out_is_identity(out, n), "ordered-results-equal-map")
    v_assert(v_queue_payload_free(pool._results_queue), "no-result-left-in-queue")


def scenario_pool_two_calls(pool, cs, nmax, unordered2):
    n1 = v_param("n1", 0, nmax)
    n2 = v_param("n2", 0, nmax)
    out1 = []
    out2 = []
    with pool:
        for x in pool.imap(v_input(n1), cs):
            out1.append(x)
        v_assert(v_out_is_identity(out1, n1), "call1-results-equal-map")
        v_assert(v_queue_payload_free(pool._results_queue), "no-result-left-between-calls")
        if unordered2:
            for x in pool.imap_unordered(v_input(n2), cs):
                out2.append(x)
        else:
            for x in pool.imap(v_input(n2), cs):
                out2.append(x)
    if unordered2:
        v_assert(v_out_is_chunked_permutation(out2, n2, cs), "call2-results-are-a-chunkwise-permutation")
    else:
        v_assert(v_out_is_identity(out2, n2), "call2-results-equal-map")
    v_assert(v_queue_payload_free(pool._results_queue), "no-result-left-in-queue")


def scenario_lifecycle(pool, cs, nmax, w0, w1, quota):
    n = v_param("n", 0, nmax)
    out = []
    with pool:
        pool.until_all_ready()
        v_assert(v_mon_get(w0, "begin_done") == 1, "until_all_ready-returned-before-begin-completed")
        if w1 is not None:
            v_assert(v_mon_get(w1, "begin_done") == 1, "until_all_ready-returned-before-begin-completed")
        for x in pool.imap(v_input(n), cs):
            out.append(x)
    v_assert(v_thread_done(w0), "worker-left-running-after-pool-exit")
    v_assert(v_mon_get(w0, "begin_calls") == 1, "begin-not-exactly-once")
    v_assert(v_mon_get(w0, "end_calls") == 1, "end-not-exactly-once")
    if quota > 0:
        v_assert(v_mon_get(w0, "items") <= quota * cs, "worker-exceeded-its-chunk-quota")
    if w1 is not None:
        v_assert(v_thread_done(w1), "worker-left-running-after-pool-exit")
        v_assert(v_mon_get(w1, "begin_calls") == 1, "begin-not-exactly-once")
        v_assert(v_mon_get(w1, "end_calls") == 1, "end-not-exactly-once")
        if quota > 0:
            v_assert(v_mon_get(w1, "items") <= quota * cs, "worker-exceeded-its-chunk-quota")


def scenario_pool_kth_call(pool, cs, nmax, unordered, max_tokens):
    """One call from an ARBITRARY state satisfying the inter-call invariant (induction over calls, DESIGN.md 4/C03):
    _sending_work False, _data_cnt arbitrary, work queue empty, results queue holding only payload-free tokens,
    no feeding thread of an earlier call alive, workers idle. The call must return its own results, terminate and
    re-establish the invariant."""
    n = v_param("n", 0, nmax)
    stale = v_param("stale_tokens", 0, max_tokens)
    prev_cnt = v_param("prev_data_cnt", 0, 3)
    out = []
    with pool:
        pool._data_cnt = prev_cnt
        pool._sending_work = False
        for _ in range(stale):
            try:
                pool._results_queue.put((None, None), False)
            except queue.Full:
                pass
        if unordered:
            for x in pool.imap_unordered(v_input(n), cs):
                out.append(x)
        else:
            for x in pool.imap(v_input(n), cs):
                out.append(x)
        if unordered:
            v_assert(v_out_is_chunked_permutation(out, n, cs), "kth-call-results-are-a-chunkwise-permutation")
        else:
            v_assert(v_out_is_identity(out, n), "kth-call-results-equal-map")
        v_assert(not pool._sending_work, "invariant-sending-work-false-after-call")
        v_assert(v_queue_payload_free(pool._results_queue), "invariant-no-result-left-between-calls")
        v_assert(v_queue_payload_free(pool._work_queue), "invariant-no-work-left-between-calls")


def scenario_factory_call(pool, cs, nmax, max_tokens):
    """FactoryFunctorPool with a chunk quota: one call (optionally after stale wake-up tokens of earlier calls)."""
    n = v_param("n", 0, nmax)
    stale = v_param("stale_tokens", 0, max_tokens)
    out = []
    with pool:
        for _ in range(stale):
            try:
                pool._results_queue.put((None, None), False)
            except queue.Full:
                pass
        for x in pool.imap(v_input(n), cs):
            out.append(x)
        v_assert(v_out_is_identity(out, n), "factory-call-results-equal-map")
        v_assert(not pool._sending_work, "invariant-sending-work-false-after-call")
        v_assert(v_queue_payload_free(pool._results_queue), "invariant-no-result-left-between-calls")
        v_assert(v_queue_payload_free(pool._work_queue), "invariant-no-work-left-between-calls")
        v_assert(v_queue_has_no_none(pool._replace_queue), "invariant-no-stop-token-left-in-replace-queue")


def scenario_factory_lifecycle(pool, cs, nmax, w0, w1, quota):
    """FactoryFunctorPool, quota per worker, one spare: lifecycle of the initial AND of the replaced worker."""
    n = v_param("n", 0, nmax)
    out = []
    with pool:
        for x in pool.imap(v_input(n), cs):
            out.append(x)
    v_assert(v_out_is_identity(out, n), "factory-call-results-equal-map")
    v_assert(v_thread_done(w0), "worker-left-running-after-pool-exit")
    v_assert(v_mon_get(w0, "begin_calls") == 1, "begin-not-exactly-once")
    v_assert(v_mon_get(w0, "end_calls") == 1, "end-not-exactly-once")
    v_assert(v_mon_get(w0, "items") <= quota * cs, "worker-exceeded-its-chunk-quota")
    v_assert(v_mon_get(w1, "items") <= quota * cs, "worker-exceeded-its-chunk-quota")
    if v_mon_get(w1, "begin_calls") > 0:
        v_assert(v_thread_done(w1), "replaced-worker-left-running-after-pool-exit")
        v_assert(v_mon_get(w1, "begin_calls") == 1, "begin-not-exactly-once")
        v_assert(v_mon_get(w1, "end_calls") == 1, "end-not-exactly-once")


def scenario_fmap(fm, cs, nmax, calls):
    n = v_param("n", 0, nmax)
    out = []
    with fm:
        for x in fm(v_input(n), cs):
            out.append(x)
        v_assert(v_out_is_identity(out, n), "results-equal-map")
        if calls == 2:
            n2 = v_param("n2", 0, nmax)
            out2 = []
            for x in fm(v_input(n2), cs):
                out2.append(x)
            v_assert(v_out_is_identity(out2, n2), "second-call-results-equal-map")
    v_assert(v_queue_payload_free(fm._results_queue), "no-result-left-in-queue")


def scenario_mulpmap(workers, nmax):
    n = v_param("n", 0, nmax)
    out = mul_p_map(ident, v_input(n), workers)
    v_assert(v_out_is_identity(out, n), "mul_p_map-results-equal-map")
    v_assert(v_queue_payload_free(workers_mod.FunRunner.RESULTS_QUEUE), "no-result-left-in-queue")


# ------------------------------------------------------------------------------------------------ set-up
def _chunk_shape(cs):
    return ("L", cs, "i")


def make(cfg, ctx, mode, ctrl=None, restore=None):
    kind = cfg["kind"]
    cs = cfg.get("cs", 1)
    nmax = cfg["nmax"]
    workers = cfg.get("workers", 1)
    nchunks = -(-nmax // cs)
    calls = cfg.get("calls", 1)
    info = {"list_caps": {}, "default_cap": max(nmax, nchunks, 1), "dict_keys": nchunks + 1}
    if kind == "pool":
        wcls = IdWorker
        if mode == "replay":
            from vf.bmc import replay as rp
            wcls = rp.gate_process_class(ctrl, IdWorker)
            saved = opp.threading
            opp.threading = rp.FakeThreading(ctx)
            restore.append(lambda: setattr(opp, "threading", saved))
            rp.patch_thread_class(ctrl, opp.CMThread, restore)
        quota = cfg.get("quota", 0)
        if cfg.get("lifecycle"):
            wcls = LifeWorker
            if mode == "replay":
                wcls = rp.gate_process_class(ctrl, LifeWorker)
        ws = [wcls(ctx, quota) if quota else wcls(ctx) for _ in range(workers)]
        for k, wk in enumerate(ws):
            wk._vf_name = "worker%d" % k
        pool = FunctorPool(ws, context=ctx, work_queue_maxsize=cfg.get("wq", 1.0), results_queue_maxsize=cfg.get("rq", None))
        if mode == "model":
            chunk = _chunk_shape(cs)
            total = nchunks * calls
            pool._work_queue.elem = ("O", ("t", "i", chunk))
            pool._work_queue.cap = (pool._work_queue.maxsize or (total + workers)) + 1
            pool._results_queue.elem = ("t", ("O", "i"), ("O", chunk))
            pool._results_queue.cap = (pool._results_queue.maxsize or (total + calls)) + 1
        else:
            from vf.bmc import replay as rp
            rp.gate_attributes(ctrl, pool, cfg.get("gated_attrs", ["_sending_work", "_data_cnt"]), "FunctorPool#0")
        info["list_caps"].update({("scenario_pool_one_call", "out"): max(nmax, 1), ("scenario_pool_two_calls", "out1"): max(nmax, 1),
                                  ("scenario_pool_two_calls", "out2"): max(nmax, 1), ("chunking", "ch"): cs,
                                  ("_get_results", "chunks"): max(nchunks + 1, 1), ("_get_results", "indexes"): max(nchunks + 1, 1)})
        if cfg.get("kth"):
            info["list_caps"][("scenario_pool_kth_call", "out")] = max(nmax, 1)
            mt = cfg.get("max_tokens", 1)
            if mode == "model":
                pool._results_queue.cap = (pool._results_queue.maxsize or (total + calls + mt)) + 1
                info["list_caps"][("_get_results", "chunks")] = max(nchunks + 1 + mt, 1)
                info["list_caps"][("_get_results", "indexes")] = max(nchunks + 1 + mt, 1)
            return {"scenario": scenario_pool_kth_call, "args": (pool, CInt(cs), CInt(nmax), cfg.get("api", "imap") == "imap_unordered", CInt(mt)),
                    "info": info}
        if cfg.get("lifecycle"):
            info["list_caps"][("scenario_lifecycle", "out")] = max(nmax, 1)
            return {"scenario": scenario_lifecycle, "args": (pool, CInt(cs), CInt(nmax), ws[0], ws[1] if workers > 1 else None, CInt(quota)),
                    "info": info, "workers": ws}
        if calls == 1:
            return {"scenario": scenario_pool_one_call, "args": (pool, CInt(cs), CInt(nmax), cfg.get("api", "imap") == "imap_unordered"), "info": info}
        return {"scenario": scenario_pool_two_calls, "args": (pool, CInt(cs), CInt(nmax), cfg.get("api", "imap") == "imap_unordered"), "info": info}
    if kind == "factory":
        quota = cfg.get("quota", 1)
        spares = cfg.get("spares", 1)
        wcls = LifeWorker if cfg.get("lifecycle") else IdWorker
        if mode == "replay":
            from vf.bmc import replay as rp
            wcls = rp.gate_process_class(ctrl, wcls)
            saved = opp.threading
            opp.threading = rp.FakeThreading(ctx)
            restore.append(lambda: setattr(opp, "threading", saved))
            rp.patch_thread_class(ctrl, opp.CMThread, restore)
        fac = SpareFactory(ctx, wcls, quota, workers + spares, initial=workers,
                           spare_quota=(math.inf if cfg.get("spares_unlimited") else None))
        pool = FactoryFunctorPool(workers, fac, context=ctx, work_queue_maxsize=cfg.get("wq", 1.0), results_queue_maxsize=cfg.get("rq", None))
        mt = cfg.get("max_tokens", 0)
        if mode == "model":
            chunk = _chunk_shape(cs)
            pool._work_queue.elem = ("O", ("t", "i", chunk))
            pool._work_queue.cap = (pool._work_queue.maxsize or (nchunks + workers)) + 2
            pool._results_queue.elem = ("t", ("O", "i"), ("O", chunk))
            pool._results_queue.cap = (pool._results_queue.maxsize or (nchunks + 1 + mt)) + 1
            pool._replace_queue.elem = ("O", "i")
            pool._replace_queue.cap = spares + workers + 2
            info["publication_functions"] = ["_init_process"]
        else:
            from vf.bmc import replay as rp
            rp.gate_attributes(ctrl, pool, cfg.get("gated_attrs", ["_sending_work", "_data_cnt"]), "FactoryFunctorPool#0")
            pool.procs = rp.GatedList(ctrl, pool.procs, "list0")
        info["list_caps"].update({("scenario_factory_call", "out"): max(nmax, 1), ("chunking", "ch"): cs,
                                  ("_get_results", "chunks"): max(nchunks + 1 + mt, 1), ("_get_results", "indexes"): max(nchunks + 1 + mt, 1)})
        if cfg.get("lifecycle"):
            info["list_caps"][("scenario_factory_lifecycle", "out")] = max(nmax, 1)
            return {"scenario": scenario_factory_lifecycle, "args": (pool, CInt(cs), CInt(nmax), fac.all[0], fac.all[1], CInt(quota)), "info": info}
        return {"scenario": scenario_factory_call, "args": (pool, CInt(cs), CInt(nmax), CInt(mt)), "info": info}
    if kind == "fmap":
        saved_q = pools.Queue
        pools.Queue = lambda maxsize=0: ctx.Queue(maxsize)
        try:
            fm = pools.FunctorMap(ident, workers)
        finally:
            pools.Queue = saved_q
        for k, wk in enumerate(fm.procs):
            wk._vf_name = "worker%d" % k
        if mode == "model":
            chunk = _chunk_shape(cs)
            fm._work_queue.elem = ("O", ("t", "i", chunk))
            fm._work_queue.cap = workers + 1
            fm._results_queue.elem = ("t", "i", chunk)
            fm._results_queue.cap = nchunks * calls + 1
        else:
            from vf.bmc import replay as rp
            G = rp.gate_process_class(ctrl, pools.FunctorWorker)
            for wk in fm.procs:
                wk.__class__ = G
        info["list_caps"].update({("scenario_fmap", "out"): max(nmax, 1), ("scenario_fmap", "out2"): max(nmax, 1), ("chunking", "ch"): cs})
        return {"scenario": scenario_fmap, "args": (fm, CInt(cs), CInt(nmax), CInt(calls)), "info": info}
    if kind == "mulpmap":
        FR = workers_mod.FunRunner
        saved = (FR.WORK_QUEUE, FR.RESULTS_QUEUE)
        FR.WORK_QUEUE = ctx.Queue(cfg.get("wq", 2))
        FR.RESULTS_QUEUE = ctx.Queue()
        if mode == "model":
            FR.WORK_QUEUE.elem = ("O", ("t", "i", ("L", 1, "i")))
            FR.WORK_QUEUE.cap = (cfg.get("wq", 2)) + 1
            FR.RESULTS_QUEUE.elem = ("t", "i", ("L", 1, "i"))
            FR.RESULTS_QUEUE.cap = nmax + 1
        else:
            from vf.bmc import replay as rp
            G = rp.gate_process_class(ctrl, FR)
            saved_cls = maps.FunRunner
            maps.FunRunner = G
            restore.append(lambda: setattr(maps, "FunRunner", saved_cls))
            restore.append(lambda: (setattr(FR, "WORK_QUEUE", saved[0]), setattr(FR, "RESULTS_QUEUE", saved[1])))
        info["list_caps"].update({("mul_p_map", "res"): max(nmax, 1), ("mul_p_map", "procs"): workers})
        return {"scenario": scenario_mulpmap, "args": (CInt(workers), CInt(nmax)), "info": info}
    raise ValueError(kind)
