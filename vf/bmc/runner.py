"""Runs Engine C configurations (one process per configuration), replays counterexamples on the real code, applies the
known-findings file and writes the evidence (same exit-code contract as the Engine S runner)."""
import hashlib
import json
import multiprocessing as mp
import os
import subprocess
import sys
import time
import traceback

ROOT = os.path.dirname(os.path.dirname(os.path.dirname(os.path.abspath(__file__))))
EVID = os.path.join(ROOT, "evidence")
REPLAYS = os.path.join(ROOT, "replays")


def _config_child(module_name, cfg, queries, Ks, timeout_s, seed, conn, extra_module=None, faults_may_block=False, budget_s=None):
    res = {"cfg": cfg, "ok": False}
    t0 = time.time()
    timeout_s = cfg.get("timeout_s", timeout_s)
    deadline = t0 + budget_s if budget_s else None

    def tmo():
        # per-query time-out, shrunk so that the configuration ends (with its partial results) before the wall limit
        if deadline is None:
            return timeout_s
        return max(5, min(timeout_s, deadline - time.time() - 30))

    try:
        os.environ["VF_BMC_W"] = str(cfg.get("W", 4))
        import resource
        lim = int(float(os.environ.get("VERIF_CHILD_MEM_GB", "12")) * (1 << 30))
        resource.setrlimit(resource.RLIMIT_AS, (lim, lim))
        sys.setrecursionlimit(20000)
        from vf.xh import loader
        loader.install(rewrite=False)
        import importlib
        for k in [k for k in sys.modules if k.startswith("harness.") or k.startswith("vf.bmc.")]:
            if k != "vf.bmc.runner":
                del sys.modules[k]
        mod = importlib.import_module(module_name)
        from vf.bmc import prims, driver, bmc
        from vf.bmc.vm import World
        import z3
        ctx = prims.SimContext()
        built = mod.make(cfg, ctx, "model")
        info = built["info"]
        w = World(default_cap=info["default_cap"], dict_keys=info["dict_keys"])
        w.list_caps.update(info["list_caps"])
        w.publication_functions = set(info.get("publication_functions", ()))
        w.fork_functions = set(info.get("fork_functions", ()))
        w.files = dict(info.get("files", {}))
        w.storage_files = info.get("storage_files")
        for pn in info.get("shared_prims", ()):  # known to be shared: visible from the first exploration pass on
            w.prim_access[pn] = {"<declared shared>", "<by the harness>"}
        S = driver.build(w, built["scenario"], built["args"])
        res["build_s"] = round(time.time() - t0, 2)
        res["stats"] = S.stats()
        res["functions"] = sorted(f.replace(loader.REPO + "/", "") for f in w.functions_encoded)
        res["files"] = {k: v for k, v in loader.LOADED.items()}
        res["threads"] = [{"name": t.name, "nodes": len(t.node_list), "edges": len(t.edges)} for t in S.threads]
        res["shared_cells"] = sorted(ci.name for ci in w.cells.values() if ci.writers and len(ci.readers | ci.writers) > 1)
        res["queries"] = {}
        wit_extra = None
        pmax = [c == hi for (c, lo, hi) in w.params.values()]
        if pmax and not cfg.get("witness_any_input"):
            # (configurations in which the maximal input legitimately cannot complete - e.g. one worker whose quota is smaller
            # than the number of chunks - ask for a complete correct run with ANY input length instead)
            wit_extra = z3.And(pmax)
        # 1. find K with unwind unsat (configurations with "fixed_K" decide the claim queries first and try the unwinding
        #    query once afterwards: used where refuting the unwinding query is expensive)
        K_ok = None
        tried = []
        fixed_K = cfg.get("fixed_K")
        for K in (() if fixed_K else Ks):
            r = driver.check(S, K, which=("unwind",), timeout_s=tmo(), seed=seed, context_bound=cfg.get("context_bound"))["unwind"]
            tried.append({"K": K, "result": r["result"], "time_s": r["time_s"], "flags": r.get("flags")})
            if r["result"] == "sat" and "prefix_schedule" not in res and not r.get("flags"):
                # an arbitrary K-step prefix of some execution: used for model-vs-implementation conformance (replayed on real code)
                res["prefix_schedule"] = {"schedule": r.get("schedule"), "params": r.get("params"), "faults": r.get("faults"), "K": K}
            if r["result"] == "unsat":
                K_ok = K
                break
            if r["result"] != "sat":
                break
            if r.get("flags") and "flag.bound_exceeded:b" in r["flags"]:
                res["bound_exceeded_schedule"] = r.get("schedule")
                break
        res["unwind"] = tried
        K = fixed_K or (K_ok if K_ok is not None else Ks[-1])
        res["K"] = K
        res["unwind_ok"] = K_ok is not None
        which = [q for q in queries if q != "unwind"]
        extra = None
        if extra_module:
            extra = importlib.import_module(extra_module).extra_assert
        if faults_may_block:
            nofault = [z3.Not(z3.Bool(n + "@0")) for n in S.vars if n.startswith("fault.")]
            if nofault:
                wit_extra = z3.And(wit_extra, *nofault) if wit_extra is not None else z3.And(nofault)
        out = {}
        for q1 in which:
            out.update(driver.check(S, K, which=(q1,), timeout_s=tmo(), seed=seed, witness_extra=wit_extra, assert_extra=extra, context_bound=cfg.get("context_bound")))
        for q, r in out.items():
            res["queries"][q] = r
        if fixed_K:
            r = driver.check(S, K, which=("unwind",), timeout_s=tmo(), seed=seed, context_bound=cfg.get("context_bound"))["unwind"]
            res["unwind"] = [{"K": K, "result": r["result"], "time_s": r["time_s"], "flags": r.get("flags")}]
            res["unwind_ok"] = r["result"] == "unsat"
        if cfg.get("cross_check_por"):
            out2 = driver.check(S, K, which=[q for q in which if q != "witness"], timeout_s=tmo(), seed=seed, por=False)
            res["no_por"] = {q: {"result": r["result"], "time_s": r["time_s"]} for q, r in out2.items()}
        res["ok"] = True
    except BaseException as e:  # noqa
        res["error"] = "".join(traceback.format_exception(type(e), e, e.__traceback__))[-3000:]
    res["wall_s"] = round(time.time() - t0, 2)
    try:
        conn.send(res)
    finally:
        conn.close()


def run_configs(module_name, cfgs, queries, Ks, timeout_s, seed=0, nproc=None, wall_limit=None, verbose=True, extra_module=None, faults_may_block=False):
    nproc = nproc or int(os.environ.get("VERIF_NPROC", "0")) or min(16, os.cpu_count() or 4)
    ctx = mp.get_context("fork")
    results = [None] * len(cfgs)
    pending = list(range(len(cfgs)))[::-1]
    live = {}
    while pending or live:
        while pending and len(live) < nproc:
            i = pending.pop()
            a, b = ctx.Pipe(duplex=False)
            p = ctx.Process(target=_config_child, args=(module_name, cfgs[i], queries, cfgs[i].get("Ks", Ks), timeout_s, seed, b, extra_module, faults_may_block, (wall_limit * 0.92 if wall_limit else None)), daemon=True)
            p.start()
            b.close()
            live[i] = (p, a, time.time())
        done = []
        for i, (p, a, ts) in live.items():
            if a.poll(0):
                try:
                    results[i] = a.recv()
                except EOFError:
                    results[i] = {"cfg": cfgs[i], "ok": False, "error": "child died (exit %s)" % p.exitcode}
                p.join(5)
                done.append(i)
            elif not p.is_alive():
                if a.poll(0.2):
                    continue
                results[i] = {"cfg": cfgs[i], "ok": False, "error": "child died (exit %s)" % p.exitcode}
                done.append(i)
            elif wall_limit and time.time() - ts > wall_limit:
                p.kill()
                results[i] = {"cfg": cfgs[i], "ok": False, "timeout": True, "error": "wall limit %ss" % wall_limit}
                done.append(i)
        for i in done:
            live[i][1].close()
            del live[i]
            if verbose:
                r = results[i]
                qs = {q: "%s/%.0fs" % (v["result"], v["time_s"]) for q, v in (r.get("queries") or {}).items()}
                print("  [cfg] %-60s K=%s unwind_ok=%s %s %s %.0fs" % (cfg_name(cfgs[i])[:60], r.get("K"), r.get("unwind_ok"), qs,
                                                                   ("ERROR" if not r.get("ok") else ""), r.get("wall_s", 0)), flush=True)
        if not done:
            time.sleep(0.1)
    return results


def cfg_name(cfg):
    return ",".join("%s=%s" % (k, cfg[k]) for k in sorted(cfg) if k not in ("Ks", "gated_attrs", "cross_check_por"))


def replay_in_subprocess(spec, timeout=180):
    os.makedirs(REPLAYS, exist_ok=True)
    tmp = os.path.join(REPLAYS, ".tmp_bmc_%d_%d.json" % (os.getpid(), int(time.time() * 1e6) % 10 ** 9))
    with open(tmp, "w") as f:
        json.dump(spec, f)
    try:
        try:
            p = subprocess.run([sys.executable, "-m", "vf.bmc.replay_cli", tmp], cwd=ROOT, capture_output=True, text=True, timeout=timeout)
        except subprocess.TimeoutExpired:
            return {"reproduced": False, "observed": "replay timed out", "crashed": True}
        for line in p.stdout.splitlines():
            if line.startswith("REPLAY-RESULT "):
                return json.loads(line[len("REPLAY-RESULT "):])
        return {"reproduced": False, "observed": "replay crashed: " + p.stderr[-1500:], "crashed": True}
    finally:
        try:
            os.remove(tmp)
        except OSError:
            pass


def save_replay(prop, spec, observed):
    d = os.path.join(REPLAYS, prop)
    os.makedirs(d, exist_ok=True)
    body = dict(spec)
    body["property"] = prop
    body["observed"] = observed
    hsh = hashlib.sha256(json.dumps(body, sort_keys=True, default=str).encode()).hexdigest()[:12]
    path = os.path.join(d, hsh + ".json")
    with open(path, "w") as f:
        json.dump(body, f, indent=1, sort_keys=True, default=str)
    return path


def run_property(prop, tier, seed, module_name, cfgs, claim_queries, Ks, timeout_s, meta, wall_limit=None, extra_module=None, faults_may_block=False):
    """claim_queries: subset of {"assert", "deadlock"} whose `sat` is a violation of this property.
    `unwind` must be unsat for a configuration to count as discharged; `witness` must be sat (vacuity guard)."""
    from vf import runner as xr
    t0 = time.time()
    known = xr.load_findings(prop)
    queries = sorted(set(claim_queries) | {"unwind", "witness", "assert", "deadlock"})
    print("== %s tier=%s: %d configurations, queries %s ==" % (prop, tier, len(cfgs), queries), flush=True)
    results = run_configs(module_name, cfgs, queries, Ks, timeout_s, seed, wall_limit=wall_limit, extra_module=extra_module, faults_may_block=faults_may_block)
    violations, harness_errors, inconclusive, known_rep = [], [], [], []
    obligations = discharged = 0
    samples = []
    solver_time = 0.0
    nq = 0
    states = trans = 0
    validated = 0
    table = []
    functions = set()
    files = {}
    for cfg, r in zip(cfgs, results):
        name = cfg_name(cfg)
        row = {"configuration": name}
        table.append(row)
        if not r.get("ok"):
            if r.get("timeout"):
                for q in claim_queries:
                    obligations += 1
                    inconclusive.append({"configuration": name, "query": q, "why": r.get("error")})
                print("INCONCLUSIVE property=%s configuration=%s (%s)" % (prop, name, r.get("error")), flush=True)
            else:
                harness_errors.append("configuration %s: %s" % (name, r.get("error")))
            row["error"] = (r.get("error") or "")[-300:]
            continue
        functions |= set(r["functions"])
        files.update(r.get("files") or {})
        states += r["stats"]["cfa_nodes"]
        trans += r["stats"]["cfa_edges"]
        row.update({"K": r["K"], "unwind": r["unwind"], "build_s": r["build_s"], "stats": r["stats"], "threads": r["threads"],
                    "shared_cells": r["shared_cells"]})
        for u in r["unwind"]:
            solver_time += u["time_s"]
            nq += 1
        wit = r["queries"].get("witness", {})
        solver_time += wit.get("time_s", 0)
        nq += 1
        row["witness"] = wit.get("result")
        if wit.get("result") == "sat" and len(samples) < 4:
            samples.append({"configuration": name, "params": wit.get("params"),
                            "witness_schedule": ["%s:%s" % (s["thread"], s["op"]) for s in wit.get("schedule", [])][:120]})
        witness_ok = wit.get("result") == "sat"
        if r.get("prefix_schedule"):
            ps = r["prefix_schedule"]
            pspec = {"engine": "bmc", "module": module_name, "cfg": cfg, "query": "prefix", "params": ps.get("params"),
                     "faults": ps.get("faults"), "schedule": ps.get("schedule")}
            pr = replay_in_subprocess(pspec)
            validated += 1
            row["prefix_replay_on_real_code"] = {"steps": len([x for x in ps.get("schedule") or [] if x.get("visible", True)]),
                                                 "divergence": pr.get("divergence"), "ops_executed": pr.get("ops_executed")}
            if pr.get("divergence") or pr.get("crashed"):
                harness_errors.append("configuration %s: a %d-step schedule prefix of the model does not run on the real code "
                                      "(model and implementation disagree): %s" % (name, ps.get("K"), pr.get("divergence") or pr.get("observed")))
        if witness_ok:
            # translator validation: the witness schedule found in the MODEL is executed on the REAL classes
            wspec = {"engine": "bmc", "module": module_name, "cfg": cfg, "query": "witness", "params": wit.get("params"),
                     "faults": wit.get("faults"), "schedule": wit.get("schedule")}
            wr = replay_in_subprocess(wspec)
            validated += 1
            row["witness_replay_on_real_code"] = {"end": wr.get("end"), "divergence": wr.get("divergence"), "asserts": wr.get("asserts"),
                                                  "ops_executed": wr.get("ops_executed")}
            if wr.get("divergence") or wr.get("end") != "done" or wr.get("asserts") or wr.get("crashed"):
                harness_errors.append("configuration %s: the model's witness schedule does not run on the real code as predicted "
                                      "(model and implementation disagree): %s" % (name, json.dumps(row["witness_replay_on_real_code"], default=str)))
        if r.get("no_por"):
            for q, v in r["no_por"].items():
                solver_time += v["time_s"]
                nq += 1
                if v["result"] in ("sat", "unsat") and r["queries"][q]["result"] in ("sat", "unsat") and v["result"] != r["queries"][q]["result"]:
                    harness_errors.append("configuration %s: POR changes the verdict of %s (%s vs %s)" % (name, q, r["queries"][q]["result"], v["result"]))
            row["no_por"] = r["no_por"]
        for q in claim_queries:
            obligations += 1
            qr = r["queries"][q]
            solver_time += qr["time_s"]
            nq += 1
            row[q] = "%s (%.1fs)" % (qr["result"], qr["time_s"])
            if qr["result"] == "unsat":
                if not witness_ok:
                    inconclusive.append({"configuration": name, "query": q, "why": "witness query is %s: no complete correct run exists within the bound" % wit.get("result")})
                elif r["unwind_ok"]:
                    discharged += 1
                else:
                    inconclusive.append({"configuration": name, "query": q,
                                         "why": "no violation in any schedule of <= %d steps, but the unwinding bound was not reached "
                                                "(longer executions exist or a capacity was exceeded)" % r["K"]})
                    print("INCONCLUSIVE property=%s configuration=%s query=%s: unwinding bound not established at K=%d" % (prop, name, q, r["K"]), flush=True)
            elif qr["result"] == "sat":
                spec = {"engine": "bmc", "module": module_name, "cfg": cfg, "query": q, "params": qr.get("params"), "extra_module": extra_module,
                        "flags": qr.get("flags"), "faults": qr.get("faults"), "schedule": qr.get("schedule")}
                rr = replay_in_subprocess(spec)
                validated += 1
                sig = "%s:%s" % (q, ",".join(sorted(f.replace("flag.", "").replace(":b", "") for f in (qr.get("flags") or []))) or q)
                if rr.get("reproduced"):
                    if sig in known:
                        known_rep.append((sig, known[sig].get("what", "")))
                        print("KNOWN-FINDING: property=%s %s [%s] configuration %s" % (prop, known[sig].get("what", sig), sig, name), flush=True)
                        inconclusive.append({"configuration": name, "query": q, "why": "known finding present; other violations of this query are not separated"})
                    else:
                        path = save_replay(prop, spec, rr)
                        violations.append((path, sig))
                        print("VIOLATION property=%s replay=%s" % (prop, path), flush=True)
                        print("  configuration=%s query=%s params=%s flags=%s observed=%s" % (name, q, qr.get("params"), qr.get("flags"), rr.get("observed")), flush=True)
                else:
                    harness_errors.append("configuration %s: counterexample of %s does not reproduce on the real code: %s / %s" % (
                        name, q, rr.get("observed"), rr.get("divergence")))
            else:
                inconclusive.append({"configuration": name, "query": q, "why": "solver answered %s" % qr["result"]})
                print("INCONCLUSIVE property=%s configuration=%s query=%s (%s)" % (prop, name, q, qr["result"]), flush=True)
        if not witness_ok and not any(r["queries"][q]["result"] == "sat" for q in ("assert", "deadlock") if q in r["queries"]):
            harness_errors.append("configuration %s: witness query is %s although no violation was found (vacuity guard failed)" % (name, wit.get("result")))
    wall = time.time() - t0
    os.makedirs(EVID, exist_ok=True)
    cov = {
        "states": max(states, 0), "transitions": max(trans, 0), "traces_validated_against_impl": validated,
        "samples": samples or [{"note": "no witness schedule available"}],
        "explanation": meta.get("explanation", ""),
        "obligations": obligations, "discharged": discharged, "exhaustive": False,
        "queries_solved": nq, "solver_time_s": round(solver_time, 1),
        "bounds": meta.get("bounds", {}).get(tier, {}), "outside_bounds": meta.get("outside_bounds", []),
        "stubs": meta.get("stubs", []), "functions_encoded": sorted(functions),
        "files_encoded": {v[0]: {"sha256": v[1]} for v in files.values()},
        "configurations": table, "inconclusive": inconclusive,
        "known_findings_reported": [{"signature": s, "what": w_} for s, w_ in known_rep],
        "harness_errors": harness_errors,
        "engine": "PyBMC: symbolic CPython-3.12 bytecode VM -> control-flow automata -> z3 (bit-blast + SAT) with symbolic schedule",
    }
    ev = {"property_id": prop, "tier": tier, "seed": seed, "level": "model_checking", "coverage": cov,
          "assumptions": meta.get("assumptions", []), "wall_s": round(wall, 2), "violations": len(violations)}
    if states == 0:
        cov["states"] = 1
        cov["transitions"] = 1
    path = os.path.join(EVID, prop + ".json")
    with open(path, "w") as f:
        json.dump(ev, f, indent=1, default=str)
    rc = 1 if violations else (2 if harness_errors else 0)
    print("== %s: obligations=%d discharged=%d inconclusive=%d known=%d violations=%d harness_errors=%d wall=%.0fs evidence=%s exit=%d" % (
        prop, obligations, discharged, len(inconclusive), len(known_rep), len(violations), len(harness_errors), wall,
        os.path.relpath(path, ROOT), rc), flush=True)
    for e in harness_errors:
        print("HARNESS-ERROR: " + e[:1500], flush=True)
    return rc
