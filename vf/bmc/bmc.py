"""PyBMC back end: step-indexed bounded model checking of the extracted CFAs with a SYMBOLIC SCHEDULE.

At every step k a bit-vector `tid@k` selects the thread that moves; an edge fires iff its thread is selected, the
thread's pc is at the edge's source and the guard (path condition + enabledness of the visible operation) holds.
Blocking calls are disabled edges; if nothing is enabled the state stutters. Static partial-order reduction forbids,
for independent edges of different threads, the order "higher thread id first, lower id immediately after".
Solver: z3 tactic simplify; propagate-values; solve-eqs; bit-blast; sat (fresh solver per query).
"""
import time

import z3

from vf.bmc.values import W, I, var

PCW = 10


def pcv(t, k):
    return z3.BitVec("pc.%s@%s" % (t, k), PCW)


class System:
    def __init__(self, world):
        self.w = world
        self.threads = [world.threads[n] for n in world.thread_order]
        self.vars = dict(world.statevars)
        self.final = {t.name: (t.nodes["FINAL"].id if "FINAL" in t.nodes else None) for t in self.threads}
        self.edges = []
        for ti, t in enumerate(self.threads):
            for e in t.edges:
                self.edges.append((ti, e))
        # read/write sets for POR (pc and done.* resolved to pc variables)
        self.rw = []
        for ti, e in self.edges:
            R = set()
            for r in e.reads:
                if r.startswith("done."):
                    R.add("pc." + r[len("done."):-2])
                else:
                    R.add(r)
            R.add("pc." + e.thread)
            Wr = set(e.writes) | {"pc." + e.thread}
            self.rw.append((R, Wr))
        self.n_nodes = sum(len(t.node_list) for t in self.threads)

    def stats(self):
        return {"threads": len(self.threads), "cfa_nodes": self.n_nodes, "cfa_edges": len(self.edges),
                "state_variables": len(self.vars) + len(self.threads)}


def _mk(name, sort, k):
    return z3.BitVec("%s@%s" % (name, k), W) if sort == "i" else z3.Bool("%s@%s" % (name, k))


def unroll(S, K, por=True, symmetry=None, context_bound=None):
    """Returns (constraints, info) where info has the per-step selectors and states."""
    w = S.w
    cons = []
    for (c, lo, hi) in w.params.values():
        cons.append(c >= lo)
        cons.append(c <= hi)
    st = {n: _mk(n, so, 0) for n, (so, _) in S.vars.items()}
    for n, (so, init) in S.vars.items():
        if n.startswith("fault."):
            continue  # chosen by the solver, constant during the run (never assigned)
        cons.append(st[n] == (z3.BoolVal(bool(init)) if so == "b" else I(int(init))))
    pcs = {t.name: pcv(t.name, 0) for t in S.threads}
    for t in S.threads:
        cons.append(pcs[t.name] == z3.BitVecVal(0, PCW))
    cur_consts = {n: var(n, so) for n, (so, _) in S.vars.items()}
    steps = []
    prev_sels = None
    enabled_any = []
    npor = 0
    for k in range(K):
        tid = z3.BitVec("tid@%d" % k, 6)
        done = {t.name: (pcs[t.name] == z3.BitVecVal(S.final[t.name], PCW)) if S.final[t.name] is not None else z3.BoolVal(False)
                for t in S.threads}

        def inst(expr, reads):
            subs = []
            for r in reads:
                if r.startswith("done."):
                    subs.append((z3.Bool(r), done[r[len("done."):-2]]))
                elif r in st:
                    subs.append((cur_consts[r], st[r]))
            return z3.substitute(expr, subs) if subs else expr

        sels = []
        ens = []
        for idx, (ti, e) in enumerate(S.edges):
            en = z3.And(pcs[e.thread] == z3.BitVecVal(e.src, PCW), inst(e.guard, e.reads))
            b = z3.Bool("sel%d@%d" % (idx, k))
            cons.append(b == z3.And(tid == ti, en))
            sels.append(b)
            ens.append(en)
        anyen = z3.Or(ens) if ens else z3.BoolVal(False)
        enabled_any.append(anyen)
        if context_bound is not None:
            # a pre-emption: the thread that moved at step k-1 could still move now, but another thread is chosen
            if k == 0:
                preempt_cnt = z3.BitVecVal(0, 8)
            else:
                prev_tid = steps[-1]["tid"]
                prev_can = z3.Or([z3.And(prev_tid == ti, ens[idx]) for idx, (ti, e) in enumerate(S.edges)])
                preempt_cnt = z3.If(z3.And(tid != prev_tid, prev_can, anyen), preempt_cnt + 1, preempt_cnt)
                cons.append(z3.ULE(preempt_cnt, z3.BitVecVal(context_bound, 8)))
        cons.append(z3.Implies(anyen, z3.Or(sels)))
        # next state
        writers = {}
        for idx, (ti, e) in enumerate(S.edges):
            for n, ex in e.updates.items():
                writers.setdefault(n, []).append((sels[idx], inst(ex, e.reads)))
        nst = {}
        for n, (so, _) in S.vars.items():
            expr = st[n]
            for b, ex in writers.get(n, ()):
                expr = z3.If(b, ex, expr)
            nv = _mk(n, so, k + 1)
            cons.append(nv == expr)
            nst[n] = nv
        npcs = {}
        for ti, t in enumerate(S.threads):
            expr = pcs[t.name]
            for idx, (tj, e) in enumerate(S.edges):
                if tj == ti:
                    expr = z3.If(sels[idx], z3.BitVecVal(e.dst, PCW), expr)
            nv = pcv(t.name, k + 1)
            cons.append(nv == expr)
            npcs[t.name] = nv
        if por and prev_sels is not None:
            for i1, (t1, e1) in enumerate(S.edges):
                R1, W1 = S.rw[i1]
                for i2, (t2, e2) in enumerate(S.edges):
                    if t2 < t1:
                        R2, W2 = S.rw[i2]
                        if not ((R1 | W1) & W2) and not ((R2 | W2) & W1):
                            cons.append(z3.Not(z3.And(prev_sels[i1], sels[i2])))
                            npor += 1
        steps.append({"tid": tid, "sels": sels, "st": st, "pcs": pcs})
        prev_sels = sels
        st, pcs = nst, npcs
    info = {"steps": steps, "last": st, "last_pcs": pcs, "enabled_any": enabled_any, "npor": npor}
    # enabledness in the last state (for deadlock / unwind)
    done = {t.name: (pcs[t.name] == z3.BitVecVal(S.final[t.name], PCW)) if S.final[t.name] is not None else z3.BoolVal(False)
            for t in S.threads}
    ens = []
    for idx, (ti, e) in enumerate(S.edges):
        subs = []
        for r in e.reads:
            if r.startswith("done."):
                subs.append((z3.Bool(r), done[r[len("done."):-2]]))
            elif r in st:
                subs.append((cur_consts[r], st[r]))
        g = z3.substitute(e.guard, subs) if subs else e.guard
        ens.append(z3.And(pcs[e.thread] == z3.BitVecVal(e.src, PCW), g))
    info["last_enabled"] = z3.Or(ens) if ens else z3.BoolVal(False)
    info["done"] = done
    return cons, info


def solve(cons, goal, timeout_s, threads=1, seed=0):
    s = z3.Then("simplify", "propagate-values", "solve-eqs", "bit-blast", "sat").solver()
    if threads > 1:
        z3.set_param("sat.threads", threads)
    z3.set_param("sat.random_seed", seed)
    s.set("timeout", int(timeout_s * 1000))
    s.add(*cons)
    s.add(goal)
    t0 = time.time()
    r = s.check()
    dt = time.time() - t0
    return str(r), (s.model() if str(r) == "sat" else None), dt


def decode(S, info, model):
    """Schedule of a model: list of (step, thread, edge label, src, dst)."""
    out = []
    for k, stp in enumerate(info["steps"]):
        for idx, b in enumerate(stp["sels"]):
            if z3.is_true(model.eval(b, model_completion=True)):
                ti, e = S.edges[idx]
                out.append({"step": k, "thread": e.thread, "op": e.label, "src": e.src, "dst": e.dst, "visible": e.visible})
    return out


def flag_names(S):
    return [n for n in S.vars if n.startswith("flag.")]


def queries(S, info, main="main"):
    last = info["last"]
    flags = {n: last[n] for n in flag_names(S)}
    be = flags.get("flag.bound_exceeded:b", z3.BoolVal(False))
    viol = [v for n, v in flags.items() if n != "flag.bound_exceeded:b"]
    main_done = info["done"][main]
    crashed = [last[n] for n in S.vars if n.startswith("crashed.")]
    q = {
        "assert": z3.Or(viol) if viol else z3.BoolVal(False),
        "deadlock": z3.And(z3.Not(main_done), z3.Not(info["last_enabled"]), z3.Not(be)),
        "unwind": z3.Or(info["last_enabled"], be),
        "witness": z3.And(main_done, z3.Not(info["last_enabled"]), z3.Not(z3.Or(viol)) if viol else z3.BoolVal(True), z3.Not(be),
                          z3.Not(z3.Or(crashed)) if crashed else z3.BoolVal(True)),
    }
    return q
