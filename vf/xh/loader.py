"""Import hook: loads windpyutils.* from /repo's working tree (no bytecode cache, no installed copy),
optionally applying the AST rewrites of DESIGN.md 2.3 so that CrossHair stays symbolic:

 (i)  message formatting in ``raise X(f"...{sym}...")`` / ``"..".format(sym)`` / ``"%s" % sym`` -> constant
      (exception *types* are untouched; no property speaks about message texts);
 (ii) in the modules listed in ``assoc_dict_modules`` the displays ``{}`` / ``dict()`` -> AssocDict()
      (hash-free association list with the dict contract).

Replays never use the rewrites (install(rewrite=False)).
"""
import ast
import hashlib
import importlib.abc
import importlib.util
import os
import sys

REPO = os.environ.get("VERIF_REPO", "/repo")

LOADED = {}  # module name -> (path, sha256, rewritten?)


def _is_fmt(a):
    if isinstance(a, ast.JoinedStr):
        return True
    if isinstance(a, ast.Call) and isinstance(a.func, ast.Attribute) and a.func.attr == "format":
        return True
    if isinstance(a, ast.BinOp) and isinstance(a.op, ast.Mod) and isinstance(a.left, (ast.Constant, ast.JoinedStr)):
        return True
    if isinstance(a, ast.BinOp) and isinstance(a.op, ast.Add):
        return _is_fmt(a.left) or _is_fmt(a.right) or any(
            isinstance(x, ast.Call) and isinstance(x.func, ast.Name) and x.func.id in ("str", "repr")
            for x in (a.left, a.right))
    return False


class Rewrite(ast.NodeTransformer):
    def __init__(self, assoc):
        self.assoc = assoc
        self.n_msgs = 0
        self.n_dicts = 0

    def visit_Raise(self, node):
        self.generic_visit(node)
        if isinstance(node.exc, ast.Call):
            new = []
            for a in node.exc.args:
                if _is_fmt(a):
                    self.n_msgs += 1
                    new.append(ast.copy_location(ast.Constant("<msg>"), a))
                else:
                    new.append(a)
            node.exc.args = new
        return node

    def visit_Dict(self, node):
        if self.assoc and not node.keys:
            self.n_dicts += 1
            return ast.copy_location(ast.Call(ast.Name("vf_AssocDict_", ast.Load()), [], []), node)
        return self.generic_visit(node)

    def visit_Call(self, node):
        self.generic_visit(node)
        if self.assoc and isinstance(node.func, ast.Name) and node.func.id == "dict" and not node.args and not node.keywords:
            self.n_dicts += 1
            return ast.copy_location(ast.Call(ast.Name("vf_AssocDict_", ast.Load()), [], []), node)
        return node


class Finder(importlib.abc.MetaPathFinder, importlib.abc.Loader):
    def __init__(self, rewrite=True, assoc_dict_modules=(), extra_transform=None):
        self.rewrite = rewrite
        self.assoc = tuple(assoc_dict_modules)
        self.extra_transform = extra_transform or {}

    def find_spec(self, name, path, target=None):
        if name != "windpyutils" and not name.startswith("windpyutils."):
            return None
        base = os.path.join(REPO, *name.split("."))
        if os.path.isdir(base):
            return importlib.util.spec_from_loader(name, self, origin=base + "/__init__.py", is_package=True)
        if os.path.exists(base + ".py"):
            return importlib.util.spec_from_loader(name, self, origin=base + ".py")
        return None

    def create_module(self, spec):
        return None

    def exec_module(self, module):
        path = module.__spec__.origin
        if module.__spec__.submodule_search_locations is not None:
            module.__path__ = [os.path.dirname(path)]
        with open(path, "rb") as f:
            raw = f.read()
        src = raw.decode("utf-8")
        tree = ast.parse(src, path)
        rel = os.path.relpath(path, REPO)
        rewritten = False
        if self.rewrite:
            rw = Rewrite(assoc=rel in self.assoc)
            tree = rw.visit(tree)
            tr = self.extra_transform.get(rel)
            if tr is not None:
                tree = tr(tree)
            ast.fix_missing_locations(tree)
            rewritten = bool(rw.n_msgs or rw.n_dicts or tr)
            from vf.xh.stubs import AssocDict
            module.__dict__["vf_AssocDict_"] = AssocDict
        module.__file__ = path
        LOADED[module.__name__] = (rel, hashlib.sha256(raw).hexdigest(), rewritten)
        exec(compile(tree, path, "exec", dont_inherit=True), module.__dict__)


def install(rewrite=True, assoc_dict_modules=(), extra_transform=None):
    for k in [k for k in sys.modules if k == "windpyutils" or k.startswith("windpyutils.")]:
        del sys.modules[k]
    sys.meta_path[:] = [f for f in sys.meta_path if not isinstance(f, Finder)]
    sys.meta_path.insert(0, Finder(rewrite, assoc_dict_modules, extra_transform))


def file_sha(rel):
    with open(os.path.join(REPO, rel), "rb") as f:
        return hashlib.sha256(f.read()).hexdigest()
