"""C12 - mutable line files act as a list of lines; save writes it; the source file is untouched.

State (inductive step): the file has a fixed shape (see C11) with symbolic characters; a *recipe* (fixed per job)
turns it, through the public API only, into an arbitrary mix of file-backed lines (K<i> = original line i, still an
offset into the file) and in-memory strings (S = symbolic string): originals not named are deleted, S entries are
inserted. These are exactly the reachable abstract states (offsets stay an ordered subsequence of the originals;
everything else is a str). Then ONE operation with symbolic arguments is applied and compared with a Python list.
dirty: False until the first successful modification, True after any change of content.
save: the written text is exactly "".join(line + line_ending); reopening what was saved with "\\n" gives the same list;
the source file's content is unchanged.
"""
import windpyutils.files as wf
from windpyutils.files import (MutableRandomLineAccessFile, MutableMemoryMappedRandomLineAccessFile, MutableRecordFile,
                               MutableMemoryMappedRecordFile, RandomLineAccessFile, MemoryMappedRandomLineAccessFile)

from vf import h
from vf.xh.engine import Job
from vf.xh import symfs
from harness.c11 import shape_ok, _lines, IdRecord  # noqa: F401  (shape_ok is used in the contracts)

META = {
    "level": "other",
    "explanation": "Bounded symbolic execution (CrossHair/z3) of the real mutable line-file classes on the SymFS stub: "
                   "file characters, inserted/assigned strings, indices and slice bounds are solver variables; every "
                   "reachable mix of file-backed and in-memory lines up to the bound is a pre-state (built through the "
                   "API by a recipe), one operation is compared with a Python list, the dirty flag, save() output for "
                   "three line endings, re-reading of the saved file and the untouched source.",
    "bounds": {"quick": {"original_lines": "<=2", "state_length": "<=3", "string_length": "<=2"},
               "thorough": {"original_lines": "<=3", "state_length": "<=4", "string_length": "<=2"}},
    "outside_bounds": ["longer files / states / strings", "line content containing '\\n' (outside the property's domain)",
                       "lone surrogates", "OS-level I/O errors"],
    "assumptions": ["SymFS models open()/mmap/print as documented (validated differentially every run; counterexamples "
                    "are replayed on real files)", "CrossHair 'Confirmed over all paths' / z3 unsat are trusted"],
    "stubs": ["SymFS (open, mmap, os, tempfile, print in the namespace of windpyutils.files)"],
    "functions": ["windpyutils/files.py:BaseMutableRandomLineAccessFile.%s" % m for m in
                  ["_get_item", "__setitem__", "__delitem__", "insert", "save", "_save_from_iter"]] +
                 ["windpyutils/files.py:BaseMutableRecordFile.%s" % m for m in ["__setitem__", "insert", "save"]] +
                 ["windpyutils/files.py:BaseRandomLineAccessFile.%s" % m for m in ["__len__", "__iter__", "__getitem__", "dirty"]] +
                 ["collections.abc.MutableSequence mixins (append, extend, pop, remove, reverse, __iadd__) as they are"],
}

VARIANTS = {
    "mtext": (MutableRandomLineAccessFile, False),
    "mmmap": (MutableMemoryMappedRandomLineAccessFile, False),
    "rtext": (MutableRecordFile, True),
    "rmmap": (MutableMemoryMappedRecordFile, True),
}

OPS = ["setitem", "delitem", "delslice", "insert", "append", "extend", "pop", "popdefault", "remove", "reverse", "iadd",
       "getitem", "setitem_bad", "save_n", "save_rn", "save_semi", "save_handle"]


def _one(s, maxlen):
    if len(s) > maxlen:
        return False
    for ch in s:
        o = ord(ch)
        if o == 10 or o >= 0xD800:  # no line break (property's domain); below the surrogate range (encodable)
            return False
    return True


def args_ok(s0, s1, s2, x, y, i, j):
    """constrain only what this job uses (unused arguments stay unconstrained and cost nothing)"""
    recipe = h.P["recipe"]
    op = h.P["op"]
    ns = sum(1 for r in recipe if r == "S")
    ss = [s0, s1, s2]
    for k in range(ns):
        if len(ss[k]) != 1 or not _one(ss[k], 1):
            return False
    if op in ("setitem", "insert", "append", "extend", "iadd", "remove"):
        if not _one(x, 2):
            return False
    if op == "extend" and not _one(y, 1):
        return False
    n = len(recipe)
    if op in ("setitem", "delitem", "delslice", "insert", "pop", "getitem"):
        if not (-n - 1 <= i <= n + 1):
            return False
    if op in ("delslice", "getitem"):
        if not (-n - 1 <= j <= n + 1):
            return False
    return True


def _wrap(rec, s):
    return IdRecord(s) if rec else s


def _unwrap(rec, x):
    return x.s if rec else x


def step(content: str, s0: str, s1: str, s2: str, x: str, y: str, i: int, j: int) -> bool:
    """
    pre: shape_ok(content)
    pre: args_ok(s0, s1, s2, x, y, i, j)
    post: _
    """
    fs = symfs.make_fs(wf, h.MODE)
    try:
        orig = _lines(content)
        recipe = h.P["recipe"]  # e.g. ["K0", "S", "K1"]
        op = h.P["op"]
        cls, rec = VARIANTS[h.P["variant"]]
        if len(orig) == 0 and "mmap" in h.P["variant"]:
            return h.ok()
        p = fs.put("data.txt", content)
        f = cls(p, IdRecord) if rec else cls(p)
        ss = [s0, s1, s2]
        with f:
            if not rec and f.dirty:
                return h.fail("dirty:true-before-any-modification")
            # ---- build the pre-state through the API
            keep = [int(r[1:]) for r in recipe if r[0] == "K"]
            for k in range(len(orig) - 1, -1, -1):
                if k not in keep:
                    del f[k]
            model = []
            si = 0
            for pos in range(len(recipe)):
                if recipe[pos] == "S":
                    f.insert(pos, _wrap(rec, ss[si]))
                    model.append(ss[si])
                    si += 1
                else:
                    model.append(orig[int(recipe[pos][1:])])
            modified = keep != list(range(len(orig))) or si > 0
            if not rec and f.dirty != modified:
                return h.fail("dirty:after-construction")
            if [_unwrap(rec, v) for v in list(f)] != model:
                return h.fail("build:content")
            n = len(model)
            before = list(model)
            dirty_before = f.dirty
            failed = False
            # ---- one operation
            try:
                if op == "setitem":
                    try:
                        f[i] = _wrap(rec, x)
                    except IndexError:
                        failed = True
                        if -n <= i < n:
                            return h.fail("setitem:indexerror-inside")
                    else:
                        if not (-n <= i < n):
                            return h.fail("setitem:accepts-out-of-range")
                        model[i] = x
                elif op == "setitem_bad":
                    try:
                        f[0] = 5
                    except ValueError:
                        failed = True
                    except IndexError:
                        failed = True
                    else:
                        return h.fail("setitem:accepts-non-string")
                elif op == "delitem":
                    try:
                        del f[i]
                    except IndexError:
                        failed = True
                        if -n <= i < n:
                            return h.fail("delitem:indexerror-inside")
                    else:
                        if not (-n <= i < n):
                            return h.fail("delitem:accepts-out-of-range")
                        del model[i]
                elif op == "delslice":
                    del f[i:j]
                    del model[i:j]
                elif op == "insert":
                    f.insert(i, _wrap(rec, x))
                    model.insert(i, x)
                elif op == "append":
                    f.append(_wrap(rec, x))
                    model.append(x)
                elif op == "extend":
                    f.extend([_wrap(rec, x), _wrap(rec, y)])
                    model.extend([x, y])
                elif op == "iadd":
                    f += [_wrap(rec, x)]
                    model += [x]
                elif op == "pop":
                    try:
                        r = f.pop(i)
                    except IndexError:
                        failed = True
                        if -n <= i < n:
                            return h.fail("pop:indexerror-inside")
                    else:
                        if not (-n <= i < n):
                            return h.fail("pop:accepts-out-of-range")
                        if _unwrap(rec, r) != model[i]:
                            return h.fail("pop:wrong-item")
                        del model[i]
                elif op == "popdefault":
                    try:
                        r = f.pop()
                    except IndexError:
                        failed = True
                        if n > 0:
                            return h.fail("pop:indexerror-on-nonempty")
                    else:
                        if n == 0:
                            return h.fail("pop:no-indexerror-on-empty")
                        if _unwrap(rec, r) != model[-1]:
                            return h.fail("pop:wrong-item")
                        del model[-1]
                elif op == "remove":
                    present = False
                    for v in model:
                        if v == x:
                            present = True
                            break
                    try:
                        f.remove(_wrap(rec, x))
                    except ValueError:
                        failed = True
                        if present:
                            return h.fail("remove:valueerror-on-present")
                    else:
                        if not present:
                            return h.fail("remove:no-valueerror")
                        model.remove(x)
                elif op == "reverse":
                    f.reverse()
                    model.reverse()
                elif op == "getitem":
                    try:
                        r = f[i]
                    except IndexError:
                        if -n <= i < n:
                            return h.fail("getitem:indexerror-inside")
                    else:
                        if not (-n <= i < n):
                            return h.fail("getitem:accepts-out-of-range")
                        if _unwrap(rec, r) != model[i]:
                            return h.fail("getitem:wrong-item")
                    if [_unwrap(rec, v) for v in f[i:j]] != model[i:j]:
                        return h.fail("getitem:slice")
                    failed = True  # a read is not a modification
                elif op.startswith("save"):
                    failed = True  # not a modification
                    ending = {"save_n": "\n", "save_rn": "\r\n", "save_semi": ";", "save_handle": "\n"}[op]
                    outp = fs.path("saved.txt")
                    if op == "save_handle":
                        with fs.open_for_write(outp) as oh:
                            f.save(oh, ending)
                    else:
                        f.save(outp, ending)
                    exp = "".join(line + ending for line in model)
                    if fs.content(outp) != exp:
                        return h.fail("save:text-differs")
                    if fs.content(p) != content:
                        return h.fail("save:source-changed")
                    if ending == "\n" and len(exp) > 0:
                        for rcls in (RandomLineAccessFile, MemoryMappedRandomLineAccessFile):
                            with rcls(outp) as g:
                                if list(g) != model:
                                    return h.fail("save:reopen-differs")
            except Exception as e:  # noqa
                return h.fail(op + ":raises-" + type(e).__name__)
            # ---- post-state
            if len(f) != len(model):
                return h.fail(op + ":len")
            if [_unwrap(rec, v) for v in list(f)] != model:
                return h.fail(op + ":content")
            if not rec:
                if model != before and not f.dirty:
                    return h.fail("dirty:false-after-change-of-content")
                if failed and f.dirty != dirty_before:
                    return h.fail("dirty:changed-by-a-failed-or-reading-operation")
        if fs.content(p) != content:
            return h.fail("source-changed")
        return h.ok()
    finally:
        fs.cleanup()


def post(out, tier, seed):
    n, bad = symfs.validate(120)
    out.extra["symfs_validation"] = {"contents_compared_with_real_open_and_mmap": n, "mismatches": len(bad)}
    if bad:
        out.harness_errors.append("SymFS disagrees with the real file API: %r" % (bad[0],))


def _recipes(n_orig, maxlen, max_s):
    out = []

    def rec(prefix, next_k, ns):
        out.append(list(prefix))
        if len(prefix) >= maxlen:
            return
        for k in range(next_k, n_orig):
            rec(prefix + ["K%d" % k], k + 1, ns)
        if ns < max_s:
            rec(prefix + ["S"], next_k, ns + 1)

    rec([], 0, 0)
    return out


def jobs(tier):
    out = []
    T = 900
    if tier == "quick":
        plan = [("1n3", 2, "mtext", OPS), ("1n3", 3, "mtext", ["setitem", "delitem", "insert", "save_n"]),
                ("n1n", 2, "mmmap", ["setitem", "delitem", "insert", "pop", "reverse", "getitem", "save_n", "save_semi"]),
                ("", 2, "mtext", ["append", "insert", "popdefault", "save_n", "extend"]),
                ("1n3", 2, "rtext", ["setitem", "insert", "delitem", "pop", "save_n", "setitem_bad"]),
                ("3n1n", 2, "rmmap", ["setitem", "insert", "save_n", "reverse"])]
    else:
        plan = [("1n3", 4, "mtext", OPS), ("n1n", 3, "mmmap", OPS), ("1n3n1", 3, "mtext", OPS), ("", 3, "mtext", OPS),
                ("1n3", 3, "rtext", OPS), ("3n1n", 3, "rmmap", OPS), ("2n4", 3, "mmmap", OPS)]
    for shape, maxlen, variant, ops in plan:
        n_orig = shape.count("n") + (1 if shape and not shape.endswith("n") else 0)
        for recipe in _recipes(n_orig, maxlen, 3):
            for op in ops:
                out.append(Job("C12", "harness.c12", "step", {"shape": shape, "recipe": recipe, "op": op, "variant": variant},
                               timeout=T, name="step[%s,%s,%s,%s]" % (variant, shape or "-", "".join(recipe) or "-", op)))
    return out
