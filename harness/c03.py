"""C03 - a pool stays correct across consecutive calls. Engine C, induction over calls.

Plain FunctorPool: ONE call is model-checked from an arbitrary state satisfying the inter-call invariant (symbolic
leftover _data_cnt, symbolic number of stale wake-up tokens in the results queue, _sending_work False, work queue
empty, no earlier feeding thread alive, workers idle); the call must return exactly its own results, terminate, and
re-establish the invariant - which covers call sequences of any length. The invariant is also checked to hold after
__enter__ (base case: it is the state the havoc starts from with zero tokens).
NOT covered (stated in the manifest): FactoryFunctorPool worker replacement under a chunk quota - the dynamic creation of
workers by ReplaceWorkerThread is not encoded (6+ thread configurations were measured out of reach of the BMC back end).
"""
from vf.bmc import runner
from harness import c01

META = dict(c01.META)
META["explanation"] = (
    "Inductive step over calls, decided by z3 with a symbolic schedule on the transition system regenerated from the "
    "bytecode of /repo: from every state satisfying the inter-call invariant (symbolic stale _data_cnt, symbolic number "
    "of stale payload-free tokens, idle workers) one imap / imap_unordered call with n<=N items yields exactly its own "
    "results, cannot deadlock, is bounded (unwinding query), and ends in a state satisfying the invariant again.")
META["bounds"] = {"quick": {"workers": "1", "chunk_size": "1", "items_per_call": "<=1", "stale_tokens": "<=1 (imap_unordered), 0 (imap)", "stale_data_cnt": "0..3"},
                  "thorough": {"workers": "1,2", "chunk_size": "1", "items_per_call": "<=1 (all schedules)", "stale_tokens": "<=1", "stale_data_cnt": "0..3",
                               "FactoryFunctorPool": "1 worker with quota 1 + 1 spare: n<=1 for all schedules with <=3 pre-emptions; n<=2 (spare without quota) with <=2 pre-emptions"}}
META["outside_bounds"] = list(c01.META["outside_bounds"]) + [
    "FactoryFunctorPool with max_chunks_per_worker: encoded in the thorough tier (1 worker + 1 spare, quota 1) and decided under a "
    "context bound (<=3 pre-emptions for n<=1, <=2 for n<=2); without the context bound only the counterexample search finishes "
    "within the budget and that copy of the configuration is reported INCONCLUSIVE; more than one replacement and the inter-call "
    "induction for the factory pool are outside",
    "inter-call states in which a worker still holds the results lock after its last put (it only releases the lock)"]


def configs(tier):
    out = [{"kind": "pool", "kth": True, "workers": 1, "cs": 1, "nmax": 1, "api": "imap_unordered", "max_tokens": 1},
           {"kind": "pool", "kth": True, "workers": 1, "cs": 1, "nmax": 1, "api": "imap", "max_tokens": 0}]
    if tier != "quick":
        out += [{"kind": "pool", "kth": True, "workers": 1, "cs": 1, "nmax": 1, "api": "imap", "max_tokens": 1},
                # (a kth-call configuration with n <= 2 was tried: its main-thread automaton exceeds the VM's 20000-edge limit - two
                # items x symbolic stale counters x token positions - so the inductive step is claimed for n <= 1 only)
                {"kind": "pool", "kth": True, "workers": 2, "cs": 1, "nmax": 1, "api": "imap", "max_tokens": 1},
                {"kind": "pool", "kth": True, "workers": 1, "cs": 1, "nmax": 1, "api": "imap", "max_tokens": 1, "rq": 1},
                # FactoryFunctorPool with a chunk quota (1 initial worker, quota 1 => the worker retires after its first chunk
                # and a spare is started by ReplaceWorkerThread): one call from a fresh pool incl. the invariant of the replace
                # queue. Decided for all schedules with at most 3 pre-emptions (context bound; *measured* 3-4 min per query; 5 pre-emptions: > 25 min);
                # without the context bound the refutations do not finish within the budget: the second copy of the
                # configuration is bug-hunting only (INCONCLUSIVE on a correct tree).
                {"kind": "factory", "workers": 1, "cs": 1, "nmax": 1, "quota": 1, "spares": 1, "context_bound": 3, "Ks": (90, 104)},
                {"kind": "factory", "workers": 1, "cs": 1, "nmax": 1, "quota": 1, "spares": 1, "fixed_K": 84, "timeout_s": 300},
                # two chunks: the initial worker (quota 1) retires after the first chunk while the second one is still queued and
                # the feeding may already be over; the spare has no quota (one replacement, 5 threads). All schedules with at
                # most 2 pre-emptions; *measured* on a loaded machine: 5-19 min per query, 48 min in all on the repaired tree (seed C03-m2 is found here as a deadlock).
                {"kind": "factory", "workers": 1, "cs": 1, "nmax": 2, "quota": 1, "spares": 1, "spares_unlimited": True,
                 "context_bound": 2, "Ks": (110, 130), "timeout_s": 2700}]
    return out


def run(tier, seed):
    Ks = (48, 58, 70) if tier == "quick" else (52, 66, 80, 100)
    return runner.run_property("C03", tier, seed, "harness.pools_common", configs(tier), ("assert", "deadlock"), Ks,
                               900 if tier == "quick" else 1200, META, wall_limit=1700 if tier == "quick" else 10800)
