"""C08 - DoublyLinkedList: one arbitrary operation from every list of length n <= N (inductive step).

State: every list of length n (fixed per job) with unconstrained symbolic int payloads (equal payloads allowed),
built with the public constructor. One operation (fixed per job) is applied to symbolic positions i, j.
Oracle: the expected sequence of node OBJECTS (identity); afterwards forward walk, backward walk, head, tail,
len(), list(l) and returned payloads must match. Because every field of the representation (head, tail, every
prev/next link, size) is checked against the abstract sequence, one step from every valid state is an induction
over histories of any length whose size stays <= N.
"""
from windpyutils.structures.lists import DoublyLinkedList, DoublyLinkedListNode

from vf import h
from vf.xh.engine import Job

OPS = ["append", "prepend", "extend", "pre_extend", "remove", "pop_back", "pop_front", "move_to_front",
       "move_to_back", "move_after", "rotate"]

META = {
    "level": "other",
    "explanation": "Bounded symbolic execution (CrossHair/z3) of the real DoublyLinkedList methods: for every list "
                   "length n<=N and every operation, payloads and node positions are solver variables; an obligation "
                   "is discharged only when the whole path tree is exhausted and every path satisfies the full "
                   "representation invariant + identity oracle. Inductive step => histories of any length with size<=N.",
    "bounds": {"quick": {"N": 6, "extend_len": "<=5"}, "thorough": {"N": 12, "extend_len": "<=6"}},
    "outside_bounds": ["lists longer than N", "payloads other than ints (payloads are only compared with ==, never "
                                                "ordered or hashed by the list)", "nodes that do not belong to the list"],
    "assumptions": ["CrossHair's verdict 'Confirmed over all paths' and z3's unsat are trusted",
                    "RecursionError candidates (nesting depth of node __eq__ growing with position) are confirmed by "
                    "replaying the same equality pattern at length 3000 on the real code before being reported"],
    "stubs": [],
    "functions": ["windpyutils/structures/lists.py:DoublyLinkedList." + m for m in
                  ["__init__", "append", "prepend", "extend", "pre_extend", "remove", "pop_back", "pop_front",
                   "__len__", "iter_nodes", "__iter__", "move_to_front", "move_to_back", "rotate", "move_after"]],
}

_EQ_DEPTH = [0, 0]  # current, max


def instrument():
    """Count the nesting depth of DoublyLinkedListNode.__eq__ (value comparison of nodes recursing along links)."""
    orig = DoublyLinkedListNode.__eq__
    if getattr(orig, "_vf", False):
        return

    def eq(self, other):
        _EQ_DEPTH[0] += 1
        if _EQ_DEPTH[0] > _EQ_DEPTH[1]:
            _EQ_DEPTH[1] = _EQ_DEPTH[0]
        try:
            return orig(self, other)
        finally:
            _EQ_DEPTH[0] -= 1

    eq._vf = True
    DoublyLinkedListNode.__eq__ = eq


def _check(l, exp, tag):
    # forward walk by identity
    node = l.head
    k = 0
    prev = None
    while node is not None:
        if k >= len(exp) or node is not exp[k]:
            return h.fail(tag + ":forward-order")
        if node.prev_node is not prev:
            return h.fail(tag + ":prev-link")
        prev = node
        node = node.next_node
        k += 1
        if k > len(exp) + 1:
            return h.fail(tag + ":forward-cycle")
    if k != len(exp):
        return h.fail(tag + ":forward-short")
    if l.tail is not prev:
        return h.fail(tag + ":tail")
    if len(exp) == 0 and l.head is not None:
        return h.fail(tag + ":head")
    if len(l) != len(exp):
        return h.fail(tag + ":len")
    # data seen through the public iterator
    ds = list(l)
    if len(ds) != len(exp):
        return h.fail(tag + ":iter-len")
    for a, nd in zip(ds, exp):
        if not (a == nd.data):
            return h.fail(tag + ":iter-data")
    return h.ok()


def step(d0: int, d1: int, d2: int, d3: int, d4: int, d5: int, d6: int, d7: int, d8: int, d9: int, d10: int, d11: int,
         i: int, j: int, x: int, y: int, z: int, x3: int, x4: int, x5: int, flag: bool) -> bool:
    """
    pre: 0 <= i < max(1, h.P['n'])
    pre: 0 <= j < max(1, h.P['n'])
    post: _
    """
    n = h.P["n"]
    op = h.P["op"]
    data = [d0, d1, d2, d3, d4, d5, d6, d7, d8, d9, d10, d11][:n]
    l = DoublyLinkedList(data)
    nodes = list(l.iter_nodes())
    if len(nodes) != n:
        return h.fail("construct:len")
    exp = list(nodes)
    tag = op
    try:
        if op == "append":
            nd = l.append(x)
            if not (nd.data == x):
                return h.fail("append:ret")
            exp.append(nd)
        elif op == "prepend":
            nd = l.prepend(x)
            if not (nd.data == x):
                return h.fail("prepend:ret")
            exp.insert(0, nd)
        elif op == "extend" or op == "pre_extend":
            m = h.P["m"]
            xs = [x, y, z, x3, x4, x5][:m]
            if op == "extend":
                l.extend(xs)
            else:
                l.pre_extend(xs)
            # new nodes are not returned: locate them by walking (bounded)
            walked = []
            node = l.head
            while node is not None and len(walked) <= n + m + 1:
                walked.append(node)
                node = node.next_node
            if len(walked) != n + m:
                return h.fail(tag + ":count")
            if op == "extend":
                new = walked[n:]
                exp = nodes + new
                vals = xs
            else:
                new = walked[:m]
                exp = new + nodes
                vals = xs[::-1]
            for nd, v in zip(new, vals):
                if not (nd.data == v):
                    return h.fail(tag + ":data")
        elif op == "remove":
            if n == 0:
                return h.ok()
            l.remove(nodes[i])
            del exp[i]
        elif op == "pop_back":
            if n == 0:
                try:
                    l.pop_back()
                except IndexError:
                    return _check(l, exp, tag)
                return h.fail("pop_back:no-indexerror")
            r = l.pop_back()
            if not (r == nodes[-1].data):
                return h.fail("pop_back:ret")
            del exp[-1]
        elif op == "pop_front":
            if n == 0:
                try:
                    l.pop_front()
                except IndexError:
                    return _check(l, exp, tag)
                return h.fail("pop_front:no-indexerror")
            r = l.pop_front()
            if not (r == nodes[0].data):
                return h.fail("pop_front:ret")
            del exp[0]
        elif op == "move_to_front":
            if n == 0:
                return h.ok()
            l.move_to_front(nodes[i])
            nd = exp.pop(i)
            exp.insert(0, nd)
        elif op == "move_to_back":
            if n == 0:
                return h.ok()
            l.move_to_back(nodes[i])
            nd = exp.pop(i)
            exp.append(nd)
        elif op == "move_after":
            if n == 0:
                return h.ok()
            l.move_after(nodes[i], nodes[j])
            if i != j:
                nd = exp.pop(i)
                exp.insert(_index_is(exp, nodes[j]) + 1, nd)
        elif op == "rotate":
            l.rotate(flag)
            if n >= 2:
                if flag:
                    exp = exp[1:] + exp[:1]
                else:
                    exp = exp[-1:] + exp[:-1]
    except Exception as e:  # noqa: documented errors are handled above; anything else is a failure of the operation
        return h.fail(tag + ":raises-" + type(e).__name__)
    return _check(l, exp, tag)


def _index_is(seq, obj):
    k = 0
    for s in seq:
        if s is obj:
            return k
        k += 1
    raise AssertionError("node not in expected sequence")


def eq_depth(d0: int, d1: int, d2: int, d3: int, d4: int, d5: int, d6: int, d7: int, d8: int, d9: int, d10: int,
             d11: int, i: int, j: int, flag: bool) -> bool:
    """
    pre: 0 <= i < h.P['n']
    pre: 0 <= j < h.P['n']
    post: _
    """
    # "no operation fails because of list length or payload values": value comparison of nodes (dataclass __eq__)
    # recurses along the links; if its nesting depth can grow with the position, a long list overflows the stack.
    n = h.P["n"]
    op = h.P["op"]
    data = [d0, d1, d2, d3, d4, d5, d6, d7, d8, d9, d10, d11][:n]
    if h.MODE == "replay":
        # confirm the candidate on the real code: same equality pattern, every element repeated K times
        K = 3000 // max(1, n) + 1
        big = []
        for v in data:
            big.extend([v] * K)
        l = DoublyLinkedList(big)
        nodes = list(l.iter_nodes())
        a, b = nodes[i * K + K - 1], nodes[j * K + K - 1]
        import sys
        old = sys.getrecursionlimit()
        sys.setrecursionlimit(1000)  # CPython's default: what a user gets
        try:
            _do(l, op, a, b, flag)
        except RecursionError:
            return h.fail(op + ":RecursionError-on-long-list")
        finally:
            sys.setrecursionlimit(old)
        return h.ok()
    instrument()
    l = DoublyLinkedList(data)
    nodes = list(l.iter_nodes())
    _EQ_DEPTH[0] = 0
    _EQ_DEPTH[1] = 0
    _do(l, op, nodes[i], nodes[j], flag)
    if _EQ_DEPTH[1] > 2:
        return h.fail(op + ":eq-depth-grows")
    return h.ok()


def _do(l, op, a, b, flag):
    if op == "move_after":
        l.move_after(a, b)
    elif op == "move_to_front":
        l.move_to_front(a)
    elif op == "move_to_back":
        l.move_to_back(a)
    elif op == "remove":
        l.remove(a)
    elif op == "rotate":
        l.rotate(flag)
    elif op == "pop_back":
        l.pop_back()
    elif op == "pop_front":
        l.pop_front()
    elif op == "append":
        l.append(a.data)
    elif op == "prepend":
        l.prepend(a.data)


def jobs(tier):
    T = 90 if tier == "quick" else 600
    N = 6 if tier == "quick" else 12
    M = 5 if tier == "quick" else 6
    out = []
    for op in OPS:
        for n in range(0, N + 1):
            if op in ("extend", "pre_extend"):
                for m in range(0, M + 1):
                    out.append(Job("C08", "harness.c08", "step", {"op": op, "n": n, "m": m}, timeout=T,
                                   name="step[%s,n=%d,m=%d]" % (op, n, m)))
            else:
                out.append(Job("C08", "harness.c08", "step", {"op": op, "n": n}, timeout=T,
                               name="step[%s,n=%d]" % (op, n)))
    for op in ["move_after", "move_to_front", "move_to_back", "remove", "rotate", "pop_back", "pop_front", "append",
               "prepend"]:
        n = min(N, 5)
        out.append(Job("C08", "harness.c08", "eq_depth", {"op": op, "n": n}, timeout=T,
                       name="eq_depth[%s,n=%d]" % (op, n)))
    return out
