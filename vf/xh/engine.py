"""Engine S: run harness functions under CrossHair (symbolic execution of the real code, z3 underneath).

One job = one harness function with its shape parameters fixed (P); the remaining arguments are symbolic.
Each job runs in its own forked child (hard wall-clock kill), jobs run on a pool of N processes.
Verdicts: CONFIRMED (search tree exhausted, every path satisfied the post-condition), REFUTED (+ concrete
arguments), anything else = INCONCLUSIVE (never counted as success).
"""
import collections
import importlib
import json
import multiprocessing as mp
import os
import sys
import time
import traceback
from time import perf_counter as _pc
from dataclasses import dataclass, field, asdict


@dataclass
class Job:
    prop: str
    module: str
    fn: str
    params: dict = field(default_factory=dict)
    timeout: float = 120.0  # CrossHair per-condition CPU budget
    name: str = ""
    assoc: tuple = ()  # repo-relative module paths that get the AssocDict rewrite
    per_path_timeout: float = 30.0
    group: str = ""  # jobs of one group share a description in the evidence
    setup: str = ""  # optional function in the harness module run in the child before analysis

    def label(self):
        return self.name or f"{self.fn}{json.dumps(self.params, sort_keys=True)}"


def _child(job: Job, mode: str, suppress, conn):
    t0 = time.time()
    res = {"job": job.label(), "mode": mode, "verdict": "ERROR", "args": None, "detail": ""}
    try:
        import resource
        lim = int(float(os.environ.get("VERIF_CHILD_MEM_GB", "6")) * (1 << 30))
        resource.setrlimit(resource.RLIMIT_AS, (lim, lim))
        sys.setrecursionlimit(10000)
        # floats are modelled as mathematical reals (finite only): NaN/inf are outside every claim (DESIGN 2.5)
        os.environ["CROSSHAIR_ONLY_FINITE_FLOATS"] = "1"
        import warnings
        warnings.filterwarnings("ignore", category=FutureWarning)
        from vf.xh import loader
        loader.install(rewrite=True, assoc_dict_modules=job.assoc)
        import z3
        stats = {"calls": 0, "time": 0.0}
        orig_check = z3.Solver.check

        def counted(self, *a):
            t = _pc()
            try:
                return orig_check(self, *a)
            finally:
                stats["calls"] += 1
                stats["time"] += _pc() - t

        z3.Solver.check = counted
        import crosshair.core as core
        from crosshair.core_and_libs import analyze_function
        from crosshair.options import AnalysisOptionSet, AnalysisKind
        from crosshair.condition_parser import condition_parser
        from crosshair.statespace import VerificationStatus
        from crosshair.tracers import NoTracing
        captured = {}
        orig_mk = core.make_counterexample_message

        def mk(conditions, args, return_val=None):
            msg = orig_mk(conditions, args, return_val)
            try:
                reprer = core.context_statespace().extra(core.LazyCreationRepr)
                with NoTracing():
                    real = reprer.deep_realize(args)
                captured["args"] = {k: _plain(v) for k, v in real.arguments.items()}
            except BaseException as e:  # noqa
                captured["args_error"] = repr(e)
            return msg

        core.make_counterexample_message = mk
        _patch_symbolic_str_eq()
        if job.params.get("_reals_exact", True):
            # CrossHair caps every result at UNKNOWN once a float is modelled as a real, because real arithmetic is
            # not float arithmetic. The encoded code only COMPARES and MOVES numbers (no float arithmetic), and Python
            # compares finite ints/floats exactly, so the real model is exact there (stated in the evidence).
            import crosshair.statespace as _ss
            _ss.StateSpace.cap_result_at_unknown = lambda self: None
            import crosshair.libimpl.builtinslib as _bl
            _bl._PYTYPE_TO_WRAPPER_TYPE[float] = ((_bl.RealBasedSymbolicFloat, 1.0),)  # never the IEEE model

        from vf import h
        h.MODE = mode
        h.P = dict(job.params)
        h.SUPPRESS = frozenset(suppress)
        for k in [k for k in sys.modules if k == job.module or k.startswith("harness.")]:
            del sys.modules[k]
        mod = importlib.import_module(job.module)
        if job.setup:
            getattr(mod, job.setup)()
        fn = getattr(mod, job.fn)
        counter = collections.Counter()
        opts = AnalysisOptionSet(analysis_kind=[AnalysisKind.PEP316], per_condition_timeout=job.timeout,
                                 per_path_timeout=job.per_path_timeout, report_all=True,
                                 max_uninteresting_iterations=0, stats=counter)
        checkables = analyze_function(fn, opts)
        if len(checkables) != 1 or not hasattr(checkables[0], "conditions"):
            res["detail"] = "harness has no (or a malformed) contract: " + repr(
                [getattr(c, "messages", None) for c in checkables])
        else:
            ck = checkables[0]
            options = ck.options
            options.deadline = time.process_time() + options.per_condition_timeout
            with condition_parser(options.analysis_kind):
                analysis = core.analyze_calltree(options, ck.conditions)
            st = analysis.verification_status
            msgs = [(m.state.name, m.message) for m in analysis.messages]
            res["paths"] = counter.get("num_paths", 0)
            res["confirmed_paths"] = analysis.num_confirmed_paths
            res["messages"] = msgs[:3]
            if any(n == "PRE_UNSAT" for n, _ in msgs):
                res["verdict"] = "PRE_UNSAT"
            elif st == VerificationStatus.CONFIRMED:
                res["verdict"] = "CONFIRMED"
            elif st == VerificationStatus.REFUTED:
                res["verdict"] = "REFUTED"
                res["args"] = captured.get("args")
                if res["args"] is None:
                    res["detail"] = "no arguments captured: " + captured.get("args_error", "")
            else:
                res["verdict"] = "UNKNOWN"
        res["solver_calls"] = stats["calls"]
        res["solver_time"] = round(stats["time"], 3)
        res["loaded"] = {k: v for k, v in loader.LOADED.items()}
    except MemoryError:
        res["verdict"] = "MEMOUT"
        res["detail"] = "child exceeded its address-space limit"
    except BaseException as e:  # noqa
        res["verdict"] = "MEMOUT" if "out of memory" in repr(e) else "ERROR"
        res["detail"] = "".join(traceback.format_exception(type(e), e, e.__traceback__))[-3000:]
    res["wall"] = round(time.time() - t0, 2)
    try:
        conn.send(res)
    finally:
        conn.close()


def _patch_symbolic_str_eq():
    """CrossHair 0.0.110 compares the code-point containers of two symbolic strings with ==; a tuple-backed one (an
    argument) and a list-backed one (result of + / slicing) then compare unequal although the texts are equal
    ((s + "\\n")[:-1] == s is False). Replace it by an element-wise comparison (precise, still symbolic)."""
    import crosshair.libimpl.builtinslib as bl
    from crosshair.tracers import NoTracing, ResumedTracing

    def _eq(self, other):
        with NoTracing():
            a = self._codepoints
            if isinstance(other, bl.LazyIntSymbolicStr):
                b = other._codepoints
            elif isinstance(other, str):
                b = [ord(ch) for ch in other]
            else:
                return NotImplemented
            with ResumedTracing():
                if len(a) != len(b):
                    return False
                i = 0
                n = len(a)
                while i < n:
                    if a[i] != b[i]:
                        return False
                    i += 1
                return True

    def _ne(self, other):
        r = _eq(self, other)
        if r is NotImplemented:
            return r
        return not r

    bl.LazyIntSymbolicStr.__eq__ = _eq
    bl.LazyIntSymbolicStr.__ne__ = _ne


def _plain(v):
    if isinstance(v, (bool, int, str)) or v is None:
        return v
    if isinstance(v, float):
        return v
    if isinstance(v, (list, tuple)):
        return [_plain(x) for x in v]
    if isinstance(v, dict):
        return {str(k): _plain(x) for k, x in v.items()}
    return repr(v)


def run_jobs(tasks, nproc=None, progress=None, wall_factor=1.5, wall_extra=45.0):
    """tasks: list of (job, mode, suppress). Returns list of results in the same order."""
    nproc = nproc or int(os.environ.get("VERIF_NPROC", "0")) or min(16, os.cpu_count() or 4)
    ctx = mp.get_context("fork")
    results = [None] * len(tasks)
    pending = list(range(len(tasks)))[::-1]
    live = {}  # idx -> (proc, conn, t_start, wall_limit)
    while pending or live:
        while pending and len(live) < nproc:
            i = pending.pop()
            job, mode, suppress = tasks[i]
            parent, child = ctx.Pipe(duplex=False)
            p = ctx.Process(target=_child, args=(job, mode, suppress, child), daemon=True)
            p.start()
            child.close()
            live[i] = (p, parent, time.time(), job.timeout * wall_factor + wall_extra)
        done = []
        for i, (p, conn, ts, lim) in live.items():
            if conn.poll(0):
                try:
                    results[i] = conn.recv()
                except EOFError:
                    results[i] = {"job": tasks[i][0].label(), "mode": tasks[i][1], "verdict": "ERROR",
                                  "detail": "child died without a result (exit %s)" % p.exitcode,
                                  "wall": round(time.time() - ts, 2)}
                p.join(5)
                if p.is_alive():
                    p.kill()
                done.append(i)
            elif not p.is_alive():
                # may have exited after sending
                if conn.poll(0.2):
                    continue
                results[i] = {"job": tasks[i][0].label(), "mode": tasks[i][1], "verdict": "ERROR",
                              "detail": "child died without a result (exit %s)" % p.exitcode,
                              "wall": round(time.time() - ts, 2)}
                done.append(i)
            elif time.time() - ts > lim:
                p.kill()
                p.join(5)
                results[i] = {"job": tasks[i][0].label(), "mode": tasks[i][1], "verdict": "TIMEOUT",
                              "detail": "wall limit %.0fs" % lim, "wall": round(time.time() - ts, 2)}
                done.append(i)
        for i in done:
            live[i][1].close()
            del live[i]
            if progress:
                progress(tasks[i], results[i])
        if not done:
            time.sleep(0.05)
    return results
