#!/usr/bin/env python3
"""Regenerates /verif/MANIFEST.json from the table below (keeps the manifest valid at all times)."""
import json, os, sys
ROOT = os.path.dirname(os.path.dirname(os.path.abspath(__file__)))
XH = "bounded symbolic execution of the real Python code with CrossHair (z3): inputs are solver variables, a job counts only when the path tree is exhausted ('Confirmed over all paths'); counterexamples replayed on the unmodified code"
CHECKS = {
 "C08": dict(level="other", design="4/C08",
   text="Inductive step, decided by the solver: from every list of length n<=N (payloads symbolic, equal ones allowed) every one of the 11 operations on every node position leaves head/tail/all prev+next links/size equal to the identity-based reference sequence; plus a solver search for payload patterns that make node comparison recurse with the position (confirmed on a 3000-element list before reporting). Holds for all values inside N; histories of any length with size<=N follow by induction.",
   note="Trusted: CrossHair 0.0.110 path exploration + z3 5.1 verdicts; harness oracle (identity sequence). Bounds: length<=6 (extend/pre_extend with <=5 items) quick / <=12 (<=6 items) thorough; ints as payloads."),
}
CHECKS["C06"] = dict(level="other", design="4/C06",
   text="Inductive step decided by the solver: from every LRUCache state with capacity<=C (all recency orders; keys, values, probe arguments unbounded symbolic ints) each of 14 mapping operations (+ ==/!= against dict/LRUCache) matches an ordered-list model and the full representation invariant (dict<->nodes<->links/size); views are consumed under an element budget so non-termination is a decided verdict. For all values inside the capacity bound; histories of any length follow by induction.",
   note="Trusted: CrossHair+z3; AssocDict stub standing in for the internal dict in symbolic runs (replays use the real dict); Mapping mixins of CPython executed as they are. Bounds: capacity<=4 quick / <=7 thorough.")
CHECKS["C07"] = dict(level="other", design="4/C07",
   text="Inductive step decided by the solver: from every LFUCache state with capacity<=C and use counts<=M (every tie order; keys/values symbolic ints) each mapping operation matches a content+count model in which ties are free: victim has minimal count, list non-decreasing in count, value = last stored, Item.meta == model count, dict/list/links/size consistent; views terminate under a budget.",
   note="Trusted: CrossHair+z3; AssocDict stub for the internal dict in symbolic runs. Bounds: capacity<=3,count<=3 quick / <=4,<=4 thorough.")
CHECKS["C16"] = dict(level="other", design="4/C16",
   text="Total-function check decided by the solver: for n<=N unsorted intervals with unbounded symbolic ends (int, real and mixed families) and a symbolic probe key, construction raises KeyError exactly when an interval is inverted or two share a point; otherwise lookup / in / len / ascending complete iteration equal a linear scan. Every relative position of key and interval ends is a solver-decided path.",
   note="Trusted: CrossHair+z3; floats modelled as finite reals (exact for comparisons; NaN/inf outside the claim); PairsMapping stub for the dict argument (pairwise different keys assumed). Bounds: N=3 quick / 4 thorough.")
CHECKS["C09"] = dict(level="other", design="4/C09",
   text="Solver-decided construction + inductive step: initial collections of length<=L (int / real / mixed families, repeats, empty) give strictly ascending iteration with set()/dict() content (later pair wins; Mapping and pairs forms); from every strictly ascending state of size<=L each SortedSet/SortedMap operation with a symbolic number matches a sorted-list model and the storage invariant; foreign probes ('x', None, (1,)) report absent and leave the structure unchanged.",
   note="Trusted: CrossHair+z3; floats as finite reals (NaN/inf outside the claim); PairsMapping stub for the Mapping initialiser. Bounds: L=5 (both tiers).")
CHECKS["C10"] = dict(level="other", design="4/C10",
   text="Solver-decided total-function check: for every ordered pair of the four relations, every |A|,|B|<=S and every operator/predicate group, span ends are unbounded symbolic numbers; construction (pairs, generator, starts/ends, force_no_dup_check), membership, &,|,-,^ and the nine predicates equal an independent evaluation of their membership-based definitions on every path.",
   note="Trusted: CrossHair+z3; harness reference model (20 lines). Bounds: S=2 quick (ints); thorough adds one operand with 3 spans (other <=2) for &,|,-,^,<= and a real-number family at S=2.")
CHECKS["C15"] = dict(level="other", design="4/C15",
   text="Solver-decided: the arrival order of serials 0..n-1 is a symbolic permutation (all n! orders are paths), drain vectors and the flush/clear position are enumerated per job; after every step the emitted prefix, waiting_for and len equal the definition for Buffer and PrintBuffer (real print() into a list-backed writer). CircularBuffer(c): symbolic number of puts, symbolic clear position, one more put/clear, symbolic probe index vs. the tail of the put history.",
   note="Trusted: CrossHair+z3; AssocDict stub for the buffers' internal dicts in symbolic runs; payload contents are tags (never inspected by the code). Bounds: n<=4,c<=4 quick; n<=5 complete + PrintBuffer n=6, c<=6 thorough.")
CHECKS["C17"] = dict(level="other", design="4/C17",
   text="Solver-decided total-function check: for n<=N elements with unbounded symbolic non-negative integer scores (ties and zeros included; weak orders split into one job per sorting permutation) sorted_combinations yields every non-empty combination exactly once, index-ordered, in non-decreasing key order with key = sum; min_combinations_in_interval_iter_sorted with symbolic [lo, hi) equals the brute-force set of least-sum combinations in the interval, [] when none. heapq runs on tuples with symbolic keys.",
   note="Trusted: CrossHair+z3; itertools.combinations as brute-force reference. Bounds: N=3 quick / 4 thorough; key = sum of scores.")
CHECKS["C19"] = dict(level="other", design="4/C19",
   text="Solver-decided total-function checks: int_2_roman/roman_2_int on the complete domain 1..3999 (symbolic n per range, digit-table reference, both directions); arg_sort permutation + order + stability incl. reverse for symbolic int lists; sub_seq/search_sub_seq window definition incl. overlaps and ValueError; compare_pos_in_iterables = multiset equality; Batcher/BatcherIter with symbolic length and batch size (slices, sizes, last batch, len, IndexError, lock-step tuples); plus a bit-precise z3 QF_BVFP lemma tying math.ceil(n / bs) on float64 to integer ceil-division for all n, bs < 2^B.",
   note="Trusted: CrossHair+z3. Bounds: list lengths <=4/5, |s1|<=3,|s2|<=4/5, n<=7/9, bs<=8/10, fp lemma B=8 quick / 12 thorough; roman complete.")
CHECKS["C11"] = dict(level="other", design="4/C11",
   text="Solver-decided on a stub file system: the file content is a symbolic str (every character a solver variable inside its UTF-8 length class; shapes enumerate length and newline positions), so empty lines, missing final newline, multi-byte characters and carriage returns are all inside; len, f[i] for symbolic i (negative, out of range), slices, index lists, caller-supplied offset indexes (subset/permutation/repetition; list and index file), iteration == indexing, and interleavings of two iterators with random access on one object are compared with the split-by-newline reference for the buffered, memory-mapped, mutable(unmodified) and record variants.",
   note="Trusted: CrossHair+z3; SymFS stub of open/mmap/readline/seek/tell (validated differentially against the real API on 264 contents every run; every counterexample replayed on real files). Bounds: content length <=2 (+7 shapes of 3) quick; <=3 full + length 4 over {newline,1-byte,3-byte} + two 4-line shapes with 4-entry custom indexes thorough.")
CHECKS["C12"] = dict(level="other", design="4/C12",
   text="Inductive step decided by the solver on the stub file system: every reachable mix of file-backed lines (offsets) and in-memory strings up to the bound is built through the API, then one of 17 operations (item assignment/deletion, slice deletion, insert, append, extend, pop, remove, reverse, +=, reads, save with three line endings to a path or an open handle) with symbolic strings/indices is compared with a Python list, the dirty flag rules, the exact saved text, re-reading of the saved file with both reader variants and the untouched source; text/mmap x plain/record variants.",
   note="Trusted: CrossHair+z3 (with its symbolic-str equality replaced by an element-wise one, see DESIGN); SymFS stub (validated differentially every run; counterexamples replayed on real files); identity record class for the record variants. Bounds: <=2 original lines, state length <=3 quick; <=3 lines, length <=4 thorough; inserted strings of length 1, assigned strings <=2.")
CHECKS["C20"] = dict(level="other", design="4/C20",
   text="Solver-decided on the stub file system: op-codes (create / remove / remove-of-a-file-already-deleted / flush / child create), path selectors and the position where the with-body raises are symbolic, so every history of length<=L with every exception point is a path; after each step returned paths are distinct and exist, list(pool) == created-and-not-removed == files on disk among those created, and nothing exists after flush or after leaving the context by any route (single- and multi-process pools, with and without a directory). FilePool: symbolic subset of paths, modes r/w, raising body: open handle per path inside, every handle ever opened closed afterwards.",
   note="Trusted: CrossHair+z3; SymFS contracts for tempfile/os.remove/Manager().list() (real process boundary of multi_proc outside the claim; counterexamples replayed with the real tempfile/os/multiprocessing). Bounds: L<=4 quick / <=5 thorough.")
BMC = "bounded model checking of the real code with a symbolic schedule: CPython bytecode of the repository's functions executed symbolically into control-flow automata, z3 (bit-blast + SAT) decides assertion / deadlock / unwinding queries over all interleavings and input lengths within the bound; counterexample schedules replayed on the real classes with gated primitives"
CHECKS["C01"] = dict(level="model_checking", design="4/C01", engine="bmc", technique=BMC,
   text="Decided by z3 over ALL interleavings of consumer, feeding thread and workers and all input lengths n<=N per configuration (workers, chunk size, queue bounds, imap / imap_unordered): the consumer's output equals [f(x) for x in data] (unordered: chunk-wise permutation) and no result chunk stays in the queue. A configuration counts only if the unwinding query proves that no execution is longer than K steps and a witness run exists.",
   note="Trusted: z3; the symbolic bytecode VM (vf/bmc/vm.py) and the primitive contracts (atomic manager queues, Event, Lock, thread/process start/join); identity-tag functor. Bounds: quick n<=1, 1 worker, chunk 1; thorough n<=2, workers<=2, chunk<=2, results bound 1, two calls.")
CHECKS["C02"] = dict(level="model_checking", design="4/C02", engine="bmc", technique=BMC,
   text="Decided by z3 on the same regenerated transition system: no reachable state in which the fully-consuming scenario has not finished and no thread can move (blocking calls are disabled transitions), and every execution is shorter than K steps (unwinding query unsat), for all interleavings - which includes arbitrarily late scheduling of the feeding thread - and all n<=N, with and without result-queue flow control.",
   note="As C01. A deadlock schedule found by the solver is replayed on the real classes; the replay controller confirms it when every live thread waits at a disabled operation.")
CHECKS["C05"] = dict(level="model_checking", design="4/C05", engine="bmc", technique=BMC,
   text="Decided by z3 over all interleavings of the FunctorMap parent loop (and of mul_p_map) with the worker processes and all n<=N: output == map(f, data) in order (mul_p_map: the returned list, its sorted() encoded as a rank selection), queues free of payload afterwards, no deadlock, bounded execution; a second call on the same FunctorMap is independent.",
   note="Trusted: z3, VM, primitive contracts (multiprocessing.Queue as atomic bounded FIFO). Bounds: quick FunctorMap n<=2, workers<=2, chunk<=2, one 2-call configuration, mul_p_map workers<=2, n<=2, class-level work-queue bound 1/2; thorough n<=3, mul_p_map workers<=3.")
CHECKS["C03"] = dict(level="model_checking", design="4/C03, 6", engine="bmc", technique=BMC,
   text="Plain FunctorPool: induction over calls decided by z3 with a symbolic schedule - from every state satisfying the inter-call invariant (symbolic stale _data_cnt, symbolic number of stale payload-free tokens in the results queue, _sending_work False, work queue empty, idle workers) ONE imap / imap_unordered call yields exactly its own results, cannot deadlock, is bounded, and re-establishes the invariant; hence call sequences of any length. FactoryFunctorPool with a chunk quota (thorough tier): worker retirement and replacement by ReplaceWorkerThread are encoded (5 threads); counterexamples (e.g. the stale stop token repaired in 4ecc193) are found and replayed on the real classes; the refutation is decided for ALL SCHEDULES WITH AT MOST 3 PRE-EMPTIONS (context bound, n<=1, quota 1, one replacement); without the context bound it does not finish and that copy of the configuration reports INCONCLUSIVE.",
   note="Trusted: as C01 plus the stated inter-call invariant (a worker that still holds the results lock after its last put is not represented; pending retirements in the replace queue are not part of the havoc state). Bounds: 1 worker, n<=1, <=1 stale token (quick); thorough adds 2 workers, results bound 1 (both may end INCONCLUSIVE on a loaded machine: 1200 s per query), and the factory configurations (1 worker with quota 1 + 1 spare: n<=1 with <=3 pre-emptions, n<=2 with a quota-free spare and <=2 pre-emptions).")
CHECKS["C04"] = dict(level="model_checking", design="4/C04, 6", engine="bmc", technique=BMC,
   text="Plain FunctorPool with harness workers carrying ghost monitors and solver-chosen faults (begin() raises / functor raises): decided by z3 over all interleavings, n<=N and fault choices that begin() runs once before any item, no item after end(), until_all_ready() returns only after every begin() completed, a worker with quota k processes at most k chunks, every terminated worker has begin_calls == end_calls == 1 (final-state invariant, also evaluated on the real run in replays), and no worker is running after the pool context. FactoryFunctorPool (thorough): the same monitors on the initial and the REPLACED worker, decided for all schedules with at most 2 pre-emptions.",
   note="Trusted: as C01; monitors are ghost state (not schedulable steps). Bounds: 1 worker, n<=1, quota none/1 (quick); 2 workers, n<=2 with a context bound, bounded results queue (thorough).")
CHECKS["C18"] = dict(level="model_checking", design="4/C18, 3.6", engine="bmc", technique=BMC + "; for C18 the replays run REAL os.fork()ed processes on a real file with every file operation released by a coordinator in schedule order",
   text="Decided by z3 over all interleavings of the OS-level file operations (open, seek, readline, close, mmap) of a parent and up to three forked children and over all requested line indices (solver variables per read): every read of RandomLineAccessFile, MemoryMappedRandomLineAccessFile and MapAccessFile returns the requested line, no process raises, every execution is shorter than K steps. The repository's bytecode (__getitem__, _read_line, _file_seek, _read_next_line, reopen_if_needed, open, close) is executed symbolically per process; the operating system is a small state model (one read position per open file description; a forked copy shares the parent's description until the code itself calls open(); os.getpid() = process index).",
   note="Trusted: z3, VM, and the OS model stated in the evidence (fork shares the description, open() creates a fresh one, mmap positions are private, no user-space read-ahead: worst case). Bounds: quick 1-3 children, <=2 reads per process, 3 lines, optional parent read before fork, one configuration with the second child forked after another parent read; thorough <=3 reads, 3 children x 2 reads under a context bound of 3 pre-emptions.")
CHECKS["C14"] = dict(level="model_checking", design="4/C14, 3.6", engine="bmc", technique=BMC + "; for C14 the replays run the REAL TextFileStorage with real Manager/Value/RLock objects, real files and real forked processes whose primitive operations a coordinator releases in schedule order",
   text="Decided by z3 over all interleavings of the primitive steps (Manager-list proxy calls, Value reads/writes, RLock, file open/tell/print/seek/readline) of writer processes, a concurrent reader process and the parent, and over all identifiers (solver variables: gaps, reversed arrival, pre-sized index): a concurrent read returns exactly the text stored under the id or raises IndexError - never an empty line or another id's text; after the writers finished len == number of stored ids, is_contiguous() iff the ids are 0..len-1, iteration yields every stored text in id order skipping gaps, reads of stored / never stored ids, a second store raises ValueError and changes nothing; flush() removes every file, resets len / is_contiguous / iteration and leaves a usable storage; no deadlock; every execution shorter than K steps. The bytecode of TextFileStorage (open, close, flush, __setitem__, __getitem__, _open_file_for_read, _is_file_open_for_read, __len__, is_contiguous, __iter__) is executed symbolically per process.",
   note="Trusted: z3, VM, primitive contracts (atomic proxy calls, print+flush appends one complete line, offsets as line numbers, per-process object copies). Bounds: quick 1 writer x 1 write + 1 concurrent read (ids 0..2, plain and pre-sized index), 1 writer + full inspection (ids 0..1), 1 writer + flush scenario, 2 writers x 1 write; thorough 2 writes per writer, 2 reads, ids 0..2, 2 writers + reader under a context bound. Buffered (unflushed) writes are modelled. Storages opened or read in the parent before the fork and flush() concurrent with other users are outside.")
NOT_YET = {
 "C13": "escaping behaviour lives in the C extensions _json/_csv: CrossHair realises every value at that boundary (sampling, not this technique) and csv has no Python source to encode; the repository-owned record-file layering is exercised inside C11/C12 with an identity record class (DESIGN.md section 6)",
}
def main():
    props = [json.loads(l)["id"] for l in open(os.path.join(ROOT, "properties.jsonl"))]
    checks = []
    for pid in props:
        if pid in CHECKS:
            c = CHECKS[pid]
            checks.append({
                "property_id": pid,
                "quick_cmd": "./vcheck run %s --tier quick --quiet" % pid,
                "thorough_cmd": "./vcheck run %s --tier thorough --quiet" % pid,
                "evidence_file": "evidence/%s.json" % pid,
                "replay_cmd_template": "./vcheck replay {path}",
                "engine": c.get("engine", "xh"),
                "level_claimed": {"category": c["level"], "text": c["text"], "design_ref": c["design"]},
                "level_note": c["note"],
                "technique": c.get("technique", XH),
            })
    na = [{"property_id": p, "reason": NOT_YET.get(p, "check not built yet in this session (work in progress; see DESIGN.md section 8)")}
          for p in props if p not in CHECKS]
    m = {
        "version": 1,
        "setup_cmd": "./vcheck setup",
        "hooks": {"guard": "MDOCEKAL_WINDPYUTILS_VERIF", "enable": "no hooks in the repository: all instrumentation is applied from outside (import hook, stubs, fake multiprocessing context)",
                  "baseline_off_cmd": "cd /repo && /venv/bin/python -m pytest -ra -q -p no:cacheprovider --timeout=900 --continue-on-collection-errors",
                  "source_commits": [], "add_only": True},
        "engines": [
            {"name": "xh", "path": "vf/xh", "serves_properties": [p for p in props if p in CHECKS and CHECKS[p].get("engine", "xh") == "xh"],
             "kind_free_text": "CrossHair symbolic execution (z3) of the real modules loaded from /repo by an import hook"},
            {"name": "bmc", "path": "vf/bmc", "serves_properties": [p for p in props if p in CHECKS and CHECKS[p].get("engine") == "bmc"],
             "kind_free_text": "AST->control-flow-automaton compiler + z3 bounded model checker with symbolic schedule"},
        ],
        "checks": checks,
        "not_applicable": na,
        "notes": "Technique family: solver-based checking of the real code. See DESIGN.md.",
    }
    with open(os.path.join(ROOT, "MANIFEST.json"), "w") as f:
        json.dump(m, f, indent=1)
    import jsonschema
    jsonschema.validate(m, json.load(open("/root/.vp/MANIFEST.schema.json")))
    for c in checks:
        p = os.path.join(ROOT, c["evidence_file"])
        if os.path.exists(p):
            jsonschema.validate(json.load(open(p)), json.load(open("/root/.vp/EVIDENCE.schema.json")))
    print("manifest ok:", len(checks), "checks,", len(na), "not applicable")
main()
