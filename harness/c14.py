"""C14 - TextFileStorage: what is stored under an id is what any process reads back; len / is_contiguous / iteration /
double store. Engine C (bounded model checking with a symbolic schedule over writer, reader and parent processes)."""
from vf.bmc import runner

META = {
    "explanation": "Bounded model checking with a symbolic schedule: the bytecode of TextFileStorage (open, close, __setitem__, "
                   "__getitem__, _open_file_for_read, _is_file_open_for_read, __len__, is_contiguous, __iter__) as loaded from /repo is "
                   "executed symbolically, once per process, into control-flow automata. Shared primitives are state variables with "
                   "atomic steps: the two Manager lists (every proxy call is a step), the two multiprocessing.Value counters (read "
                   "and write are separate steps), the RLock, and the storage files (open, tell, print+flush = one appended line, "
                   "seek, readline). Identifiers of all writes, the identifier a concurrent reader asks for and the probe are solver "
                   "variables (gaps, reversed arrival and pre-sized indexes are therefore inside); the interleaving of all steps of "
                   "all processes is symbolic. z3 decides: a concurrent read returns exactly the stored text or raises IndexError - "
                   "never an empty line or another id's text; after the writers finished len, is_contiguous, iteration order with gaps, "
                   "reads of stored / never stored ids, ValueError and no change on a second store; flush() removes every file, resets len / "
                   "is_contiguous / iteration and leaves a storage that can be written again; no deadlock; bounded execution. "
                   "Counterexamples, witnesses and prefixes are replayed on the REAL class with real Manager/Value/RLock objects, real "
                   "files and real forked processes whose primitive operations a coordinator releases in schedule order.",
    "bounds": {"quick": {"writers": "1 (one config with 2)", "writes per writer": 1, "ids": "0..1 (0..2 with the reader)", "concurrent readers": "<=1 (1 read)",
                         "pre-sized index": "no / yes"},
               "thorough": {"writers": "1..2", "writes per writer": "<=2", "ids": "0..2", "concurrent readers": "<=1 (<=2 reads)",
                            "pre-sized index": "no / yes", "note": "3-process configurations under a context bound of 3 pre-emptions"}},
    "outside_bounds": ["more processes / writes / ids", "flush() while another process still uses the storage (its documented precondition excludes that); "
                       "its iteration over the path list is one atomic snapshot", "a storage that was already opened or read in the "
                       "parent before the children are forked (inherited handles)", "partial line writes (print+flush is one atomic append)",
                       "reads concurrent with the parent's own inspection", "text content other than one single-line tag per id"],
    "assumptions": ["Manager list / Value proxy calls are atomic and sequentially consistent; RLock is a re-entrant mutex",
                    "print(text, file=f, flush=True) appends the complete line in one step; offsets are line numbers",
                    "every process works on its own copy of the Python object (fork) and opens its own file handles",
                    "z3's unsat is trusted; POR verdicts are cross-checked without POR on the smallest configuration"],
    "stubs": ["prims.SimManagerList (vm.mlist_op)", "prims.SimValue", "prims.SimLock (re-entrant)", "prims.SimStorageFiles (vm.storage_file_op): "
              "open/tell/print/seek/readline/close", "str(file number) / path concatenation represented by the file number",
              "multiprocessing.Process start/join as thread start/join"],
}


def configs(tier):
    out = []
    if tier == "quick":
        out.append({"w1": 1, "ids": 2, "reads": 1, "inspect": False, "W": 5, "Ks": (40, 50, 60), "cross_check_por": True})
        out.append({"w1": 1, "ids": 3, "reads": 1, "inspect": False, "presize": 3, "W": 5, "Ks": (40, 50, 60)})
        out.append({"w1": 1, "ids": 2, "W": 5, "Ks": (80, 100)})
        out.append({"w1": 1, "w2": 1, "ids": 2, "inspect": False, "W": 5, "Ks": (60, 76, 90)})
        out.append({"w1": 1, "ids": 2, "inspect": "flush", "W": 5, "Ks": (76, 90)})
    else:
        out.append({"w1": 1, "ids": 3, "reads": 2, "inspect": False, "W": 5, "Ks": (50, 60, 76)})
        out.append({"w1": 2, "ids": 3, "reads": 1, "inspect": False, "W": 5, "Ks": (60, 76, 90)})
        # three processes under <= 3 pre-emptions: *measured* not finished after 55 min on a loaded machine; its budget is capped,
        # so it may end INCONCLUSIVE (reported as such, never as success)
        out.append({"w1": 1, "w2": 1, "ids": 3, "reads": 1, "inspect": False, "W": 5, "Ks": (76, 90), "context_bound": 3, "timeout_s": 900})
        out.append({"w1": 1, "ids": 3, "W": 5, "Ks": (80, 100, 120)})
        out.append({"w1": 1, "ids": 3, "presize": 3, "W": 5, "Ks": (80, 100, 120)})
        out.append({"w1": 2, "ids": 3, "inspect": "flush", "W": 5, "Ks": (90, 110)})
        # (two writers + the full inspection phase was tried with a context bound of 2: the unrolling at K >= 110 did not fit the
        # memory / time budget of a configuration, so the inspection phase is decided with one writer process doing <= 2 writes)
    return out


def run(tier, seed):
    return runner.run_property("C14", tier, seed, "harness.storage_common", configs(tier), ("assert", "deadlock"), (60, 80, 100),
                               600 if tier == "quick" else 2400, META, wall_limit=1700 if tier == "quick" else 4800)
