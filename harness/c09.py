"""C09 - SortedSet / SortedMap stay sorted, duplicate-free and equivalent to set / dict.

construction jobs : initial collection of length L (fixed per job) of symbolic numbers (int / real / mixed
                    families; repeats allowed; L=0 is the empty initialiser) -> strictly ascending iteration with
                    the content of set(...) / dict(...) (later pairs win); SortedMap from a Mapping and from pairs.
step jobs         : from every strictly ascending state of size n <= L (symbolic numbers) one operation with a
                    symbolic number, compared with a sorted-list model + representation invariant (storage lists
                    strictly ascending, same length) => inductive step.
foreign probes    : 'x', None, (1,) against symbolic content: 'in' -> False, lookup/remove/del/pop -> KeyError,
                    and the structure is unchanged after any probe (also discard, whatever it raises).
"""
from collections.abc import Mapping

from windpyutils.structures.sorted import SortedSet, SortedMap

from vf import h
from vf.xh.engine import Job
from vf.xh.stubs import PairsMapping

Mapping.register(PairsMapping)

META = {
    "level": "other",
    "explanation": "Bounded symbolic execution (CrossHair/z3) of the real SortedSet/SortedMap code (and arg_sort): "
                   "initial values, stored numbers and probe arguments are unbounded solver variables in three "
                   "families (int, real, mixed int/real); construction is compared with set()/dict() semantics and one "
                   "arbitrary operation from every strictly ascending state is compared with a sorted-list model and "
                   "the representation invariant (inductive step).",
    "bounds": {"quick": {"L": 5}, "thorough": {"L": 5}},
    "outside_bounds": ["collections larger than L", "NaN / infinities (cannot be ordered; SortedMap rejects NaN)",
                       "keys other than int/float apart from the three foreign probes 'x', None, (1,)"],
    "assumptions": ["floats are modelled as finite reals (exact for the comparisons this code performs)",
                    "the Mapping initialiser satisfies the dict contract (pairwise different keys)",
                    "CrossHair 'Confirmed over all paths' / z3 unsat are trusted"],
    "stubs": ["PairsMapping registered as a virtual Mapping (no hashing of symbolic keys)",
              "exception message formatting in raise statements replaced by a constant"],
    "functions": ["windpyutils/structures/sorted.py:SortedSet.%s" % m for m in
                  ["__init__", "add", "discard", "__contains__", "insertions_index", "__len__", "__iter__"]] +
                 ["windpyutils/structures/sorted.py:SortedMap.%s" % m for m in
                  ["__init__", "__getitem__", "__setitem__", "__delitem__", "__iter__", "__len__", "insertions_index"]] +
                 ["windpyutils/generic.py:arg_sort", "collections.abc MutableSet/MutableMapping mixins as they are"],
}

FOREIGN = {"str": "x", "none": None, "tuple": (1,)}


# ---------------------------------------------------------------- construction
def _set_init(xs):
    L = h.P["L"]
    xs = xs[:L]
    try:
        s = SortedSet(list(xs))
    except Exception as e:  # noqa
        return h.fail("set-init:raises-" + type(e).__name__ + ("-on-empty" if L == 0 else ""))
    got = list(s)
    if len(s) != len(got):
        return h.fail("set-init:len")
    for i in range(1, len(got)):
        if not (got[i - 1] < got[i]):
            return h.fail("set-init:not-strictly-ascending")
    for x in xs:
        found = False
        for g in got:
            if g == x:
                found = True
                break
        if not found:
            return h.fail("set-init:lost-element")
    for g in got:
        found = False
        for x in xs:
            if g == x:
                found = True
                break
        if not found:
            return h.fail("set-init:invented-element")
    return h.ok()


def _map_init(ks, vs):
    L = h.P["L"]
    form = h.P["form"]
    ks = ks[:L]
    vs = vs[:L]
    pairs = list(zip(ks, vs))
    if form == "mapping":
        for i in range(L):
            for j in range(i + 1, L):
                if ks[i] == ks[j]:
                    return True  # dict contract: a Mapping has pairwise different keys (assumed)
        init = PairsMapping(pairs)
    else:
        init = pairs
    try:
        m = SortedMap(init)
    except Exception as e:  # noqa
        return h.fail("map-init:raises-" + type(e).__name__ + ("-on-empty" if L == 0 else ""))
    gk = list(m)
    if len(m) != len(gk):
        return h.fail("map-init:len")
    for i in range(1, len(gk)):
        if not (gk[i - 1] < gk[i]):
            return h.fail("map-init:keys-not-strictly-ascending")
    for i in range(L):
        # expected value: the last pair with this key wins (dict semantics)
        exp = vs[i]
        for j in range(i + 1, L):
            if ks[j] == ks[i]:
                exp = vs[j]
        try:
            r = m[ks[i]]
        except KeyError:
            return h.fail("map-init:lost-key")
        if not (r == exp):
            return h.fail("map-init:earlier-pair-wins")
    for g in gk:
        found = False
        for x in ks:
            if g == x:
                found = True
                break
        if not found:
            return h.fail("map-init:invented-key")
    if len(m.keys_storage) != len(m.values_storage):
        return h.fail("map-init:storage-lengths")
    return h.ok()


# ---------------------------------------------------------------- steps
def _pos(model, y):
    """index of the first element >= y, and whether it equals y"""
    i = 0
    for x in model:
        if x < y:
            i += 1
        else:
            break
    return i, (i < len(model) and model[i] == y)


def _check_set(s, model, tag):
    vals = s.values
    if len(vals) != len(model):
        return h.fail(tag + ":content-len")
    for a, b in zip(vals, model):
        if not (a == b):
            return h.fail(tag + ":content")
    if len(s) != len(model):
        return h.fail(tag + ":len")
    got = list(s)
    if len(got) != len(model):
        return h.fail(tag + ":iter-len")
    for a, b in zip(got, model):
        if not (a == b):
            return h.fail(tag + ":iter")
    return h.ok()


def _set_step(xs, y):
    n = h.P["n"]
    op = h.P["op"]
    model = list(xs[:n])
    s = SortedSet(list(model)) if n > 0 else SortedSet()
    pre = _check_set(s, model, "build")
    if h.MODE != "twin" and not pre:
        return pre
    i, present = _pos(model, y)
    tag = "set-" + op
    try:
        if op == "add":
            s.add(y)
            if not present:
                model.insert(i, y)
        elif op == "discard":
            s.discard(y)
            if present:
                del model[i]
        elif op == "remove":
            try:
                s.remove(y)
            except KeyError:
                if present:
                    return h.fail(tag + ":keyerror-on-present")
                return _check_set(s, model, tag)
            if not present:
                return h.fail(tag + ":no-keyerror")
            del model[i]
        elif op == "pop":
            try:
                r = s.pop()
            except KeyError:
                if n > 0:
                    return h.fail(tag + ":keyerror-on-nonempty")
                return _check_set(s, model, tag)
            if n == 0:
                return h.fail(tag + ":no-keyerror")
            j = -1
            for t in range(len(model)):
                if model[t] == r:
                    j = t
            if j < 0:
                return h.fail(tag + ":not-an-element")
            del model[j]
        elif op == "in":
            if (y in s) != present:
                return h.fail(tag + ":wrong")
        elif op == "foreign":
            return _foreign_set(s, model)
    except Exception as e:  # noqa
        return h.fail(tag + ":raises-" + type(e).__name__)
    return _check_set(s, model, tag)


def _foreign_set(s, model):
    f = FOREIGN[h.P["probe"]]
    try:
        if f in s:
            return h.fail("set-foreign:in-true")
    except Exception as e:  # noqa
        return h.fail("set-foreign:in-raises-" + type(e).__name__)
    try:
        s.remove(f)
        return h.fail("set-foreign:remove-no-keyerror")
    except KeyError:
        pass
    except Exception as e:  # noqa
        return h.fail("set-foreign:remove-raises-" + type(e).__name__)
    try:
        s.discard(f)
    except Exception:  # noqa: whatever it raises, the structure must be unchanged
        pass
    return _check_set(s, model, "set-foreign")


def _check_map(m, mk, mv, tag):
    if len(m.keys_storage) != len(mk) or len(m.values_storage) != len(mk):
        return h.fail(tag + ":storage-len")
    for a, b in zip(m.keys_storage, mk):
        if not (a == b):
            return h.fail(tag + ":keys")
    for a, b in zip(m.values_storage, mv):
        if not (a == b):
            return h.fail(tag + ":values")
    if len(m) != len(mk):
        return h.fail(tag + ":len")
    got = list(m)
    if len(got) != len(mk):
        return h.fail(tag + ":iter-len")
    for a, b in zip(got, mk):
        if not (a == b):
            return h.fail(tag + ":iter")
    return h.ok()


def _map_step(xs, vs, y, w, y2, w2):
    n = h.P["n"]
    op = h.P["op"]
    mk = list(xs[:n])
    mv = list(vs[:n])
    m = SortedMap()
    for t in range(n):  # ascending stores; the result is checked before the step (valid pre-state)
        m[mk[t]] = mv[t]
    pre = _check_map(m, mk, mv, "build")
    if h.MODE != "twin" and not pre:
        return pre
    i, present = _pos(mk, y)
    tag = "map-" + op
    try:
        if op == "setitem":
            m[y] = w
            if present:
                mv[i] = w
            else:
                mk.insert(i, y)
                mv.insert(i, w)
        elif op == "getitem":
            try:
                r = m[y]
            except KeyError:
                if present:
                    return h.fail(tag + ":keyerror-on-present")
                return _check_map(m, mk, mv, tag)
            if not present:
                return h.fail(tag + ":value-for-absent")
            if not (r == mv[i]):
                return h.fail(tag + ":wrong-value")
        elif op == "delitem":
            try:
                del m[y]
            except KeyError:
                if present:
                    return h.fail(tag + ":keyerror-on-present")
                return _check_map(m, mk, mv, tag)
            if not present:
                return h.fail(tag + ":no-keyerror")
            del mk[i]
            del mv[i]
        elif op == "pop":
            r = m.pop(y, w)
            if present:
                if not (r == mv[i]):
                    return h.fail(tag + ":wrong-value")
                del mk[i]
                del mv[i]
            elif not (r == w):
                return h.fail(tag + ":default")
        elif op == "setdefault":
            r = m.setdefault(y, w)
            if present:
                if not (r == mv[i]):
                    return h.fail(tag + ":wrong-value")
            else:
                if not (r == w):
                    return h.fail(tag + ":default")
                mk.insert(i, y)
                mv.insert(i, w)
        elif op == "update":
            m.update([(y, w), (y2, w2)])
            for (a, b) in ((y, w), (y2, w2)):
                j, pr = _pos(mk, a)
                if pr:
                    mv[j] = b
                else:
                    mk.insert(j, a)
                    mv.insert(j, b)
        elif op == "in":
            if (y in m) != present:
                return h.fail(tag + ":wrong")
        elif op == "get":
            r = m.get(y, w)
            if not (r == (mv[i] if present else w)):
                return h.fail(tag + ":wrong")
        elif op == "foreign":
            return _foreign_map(m, mk, mv)
    except Exception as e:  # noqa
        return h.fail(tag + ":raises-" + type(e).__name__)
    return _check_map(m, mk, mv, tag)


def _foreign_map(m, mk, mv):
    f = FOREIGN[h.P["probe"]]
    try:
        if f in m:
            return h.fail("map-foreign:in-true")
    except Exception as e:  # noqa
        return h.fail("map-foreign:in-raises-" + type(e).__name__)
    for name in ("getitem", "delitem", "pop"):
        try:
            if name == "getitem":
                m[f]
            elif name == "delitem":
                del m[f]
            else:
                m.pop(f)
            return h.fail("map-foreign:%s-no-keyerror" % name)
        except KeyError:
            pass
        except Exception as e:  # noqa
            return h.fail("map-foreign:%s-raises-%s" % (name, type(e).__name__))
    return _check_map(m, mk, mv, "map-foreign")


# ---------------------------------------------------------------- typed entry points (three number families)
def set_init_int(x0: int, x1: int, x2: int, x3: int, x4: int) -> bool:
    """
    post: _
    """
    return _set_init([x0, x1, x2, x3, x4])


def set_init_real(x0: float, x1: float, x2: float, x3: float, x4: float) -> bool:
    """
    post: _
    """
    return _set_init([x0, x1, x2, x3, x4])


def set_init_mixed(x0: int, x1: float, x2: int, x3: float, x4: int) -> bool:
    """
    post: _
    """
    return _set_init([x0, x1, x2, x3, x4])


def map_init_int(k0: int, k1: int, k2: int, k3: int, k4: int, v0: int, v1: int, v2: int, v3: int, v4: int) -> bool:
    """
    post: _
    """
    return _map_init([k0, k1, k2, k3, k4], [v0, v1, v2, v3, v4])


def map_init_real(k0: float, k1: float, k2: float, k3: float, k4: float, v0: int, v1: int, v2: int, v3: int,
                  v4: int) -> bool:
    """
    post: _
    """
    return _map_init([k0, k1, k2, k3, k4], [v0, v1, v2, v3, v4])


def map_init_mixed(k0: float, k1: int, k2: float, k3: int, k4: float, v0: int, v1: int, v2: int, v3: int,
                   v4: int) -> bool:
    """
    post: _
    """
    return _map_init([k0, k1, k2, k3, k4], [v0, v1, v2, v3, v4])


def set_step_int(x0: int, x1: int, x2: int, x3: int, x4: int, y: int) -> bool:
    """
    pre: x0 < x1 < x2 < x3 < x4
    post: _
    """
    return _set_step([x0, x1, x2, x3, x4], y)


def set_step_real(x0: float, x1: float, x2: float, x3: float, x4: float, y: float) -> bool:
    """
    pre: x0 < x1 < x2 < x3 < x4
    post: _
    """
    return _set_step([x0, x1, x2, x3, x4], y)


def set_step_mixed(x0: int, x1: float, x2: int, x3: float, x4: int, y: float) -> bool:
    """
    pre: x0 < x1 < x2 < x3 < x4
    post: _
    """
    return _set_step([x0, x1, x2, x3, x4], y)


def set_step_mixed2(x0: float, x1: int, x2: float, x3: int, x4: float, y: int) -> bool:
    """
    pre: x0 < x1 < x2 < x3 < x4
    post: _
    """
    return _set_step([x0, x1, x2, x3, x4], y)


def map_step_int(x0: int, x1: int, x2: int, x3: int, x4: int, v0: int, v1: int, v2: int, v3: int, v4: int,
                 y: int, w: int, y2: int, w2: int) -> bool:
    """
    pre: x0 < x1 < x2 < x3 < x4
    post: _
    """
    return _map_step([x0, x1, x2, x3, x4], [v0, v1, v2, v3, v4], y, w, y2, w2)


def map_step_real(x0: float, x1: float, x2: float, x3: float, x4: float, v0: int, v1: int, v2: int, v3: int, v4: int,
                  y: float, w: int, y2: float, w2: int) -> bool:
    """
    pre: x0 < x1 < x2 < x3 < x4
    post: _
    """
    return _map_step([x0, x1, x2, x3, x4], [v0, v1, v2, v3, v4], y, w, y2, w2)


def map_step_mixed(x0: int, x1: float, x2: int, x3: float, x4: int, v0: int, v1: int, v2: int, v3: int, v4: int,
                   y: float, w: int, y2: int, w2: int) -> bool:
    """
    pre: x0 < x1 < x2 < x3 < x4
    post: _
    """
    return _map_step([x0, x1, x2, x3, x4], [v0, v1, v2, v3, v4], y, w, y2, w2)


SET_OPS = ["add", "discard", "remove", "pop", "in"]
MAP_OPS = ["setitem", "getitem", "delitem", "pop", "setdefault", "update", "in", "get"]


def jobs(tier):
    L = 5
    out = []
    T = 900
    for fam in ("int", "real", "mixed"):
        for n in range(0, L + 1):
            out.append(Job("C09", "harness.c09", "set_init_" + fam, {"L": n}, timeout=T, name="set_init_%s[L=%d]" % (fam, n)))
            for form in ("pairs", "mapping"):
                out.append(Job("C09", "harness.c09", "map_init_" + fam, {"L": n, "form": form}, timeout=T,
                               name="map_init_%s[%s,L=%d]" % (fam, form, n)))
    for fam in ("int", "real", "mixed", "mixed2"):
        for n in range(0, L + 1):
            for op in SET_OPS:
                out.append(Job("C09", "harness.c09", "set_step_" + fam, {"n": n, "op": op}, timeout=T,
                               name="set_step_%s[%s,n=%d]" % (fam, op, n)))
    for fam in ("int", "real", "mixed"):
        for n in range(0, L + 1):
            for op in MAP_OPS:
                out.append(Job("C09", "harness.c09", "map_step_" + fam, {"n": n, "op": op}, timeout=T,
                               name="map_step_%s[%s,n=%d]" % (fam, op, n)))
    for probe in FOREIGN:
        for n in range(0, min(L, 3) + 1):
            out.append(Job("C09", "harness.c09", "set_step_mixed", {"n": n, "op": "foreign", "probe": probe}, timeout=T,
                           name="set_foreign[%s,n=%d]" % (probe, n)))
            out.append(Job("C09", "harness.c09", "map_step_mixed", {"n": n, "op": "foreign", "probe": probe}, timeout=T,
                           name="map_foreign[%s,n=%d]" % (probe, n)))
    return out
