"""python -m vf.bmc.replay_cli <file.json> [--human]: replay a BMC counterexample on the real code."""
import importlib
import json
import sys


def run(spec):
    from vf.xh import loader
    loader.install(rewrite=False)
    mod = importlib.import_module(spec["module"])
    if hasattr(mod, "custom_replay"):  # scenarios whose environment is not threads + queues (real fork()ed processes: C18)
        return mod.custom_replay(spec)
    from vf.bmc import replay
    out = replay.run_replay(mod.make, spec["cfg"], spec["schedule"], spec.get("params") or {},
                            spec["query"] if spec["query"] in ("deadlock", "witness", "prefix") else "assert", faults=spec.get("faults"))
    if spec.get("extra_module") and spec["query"] == "assert":
        # final-state invariants that are part of the assert query but not v_assert statements of the scenario
        bad = importlib.import_module(spec["extra_module"]).replay_extra(out)
        if bad:
            out["asserts"] = list(out.get("asserts") or []) + bad
            out["reproduced"] = True
            out["observed"] = "final-state invariant violated on the real code: %s (monitors %s)" % (bad, out.get("monitors"))
    return out


def main(spec=None):
    human = "--human" in sys.argv
    if spec is None:
        with open(sys.argv[1]) as f:
            spec = json.load(f)
        human = human or False
    out = run(spec)
    print("REPLAY-RESULT " + json.dumps(out, default=str))
    if human or True:
        print("configuration:", spec["cfg"])
        print("parameters   :", spec.get("params"), " query:", spec["query"], " flags:", spec.get("flags"))
        print("schedule     :", " ".join("%s:%s" % (s["thread"], s["op"]) for s in spec["schedule"] if s.get("visible", True))[:3000])
        print("observed     :", out.get("observed"), "| end:", out.get("end"), "| divergence:", out.get("divergence"))
        print("reproduced   :", out.get("reproduced"))
    return 0


if __name__ == "__main__":
    sys.exit(main())
