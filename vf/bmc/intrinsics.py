"""Harness intrinsics understood by the PyBMC VM (DESIGN.md 3.2 item 4). In plain CPython (replay) they have an
ordinary concrete meaning, so the same scenario function can be run against the real classes."""
import z3

from vf.bmc.values import I, as_bv, as_bool, SList, InputIter, VMError, is_z3, shape_of, default_of, ite

REPLAY = {"params": {}, "asserts": [], "log": [], "mon": {}, "faults": {}}


def _intrinsic(name):
    def deco(fn):
        fn._vf_intrinsic = name
        return fn

    return deco


@_intrinsic("param")
def v_param(name, lo=0, hi=0):
    """a symbolic integer parameter of the scenario (lo <= value <= hi), fixed per run"""
    return REPLAY["params"][name]


@_intrinsic("input")
def v_input(n):
    """finite, lazily produced input iterable with the item ids 0..n-1"""
    return iter(range(n))


@_intrinsic("assert")
def v_assert(cond, label):
    if not cond:
        REPLAY["asserts"].append(label)
        if REPLAY.get("on_assert"):
            REPLAY["on_assert"](label)  # replays with real processes report to their coordinator


@_intrinsic("text")
def v_text(g):
    """the text stored under identifier g (model: the tag g itself)"""
    return "t%d" % g


@_intrinsic("texts_match")
def v_texts_match(out, ids):
    """out == [text(g) for g in ids]"""
    return list(out) == ["t%d" % g for g in ids]


@_intrinsic("storage_files_left")
def v_storage_files_left():
    """number of files that exist in the storage directory"""
    import os
    return len(os.listdir(REPLAY["storage_dir"]))


@_intrinsic("role")
def v_role(name):
    """start of a process body (replays with real processes learn who they are); no effect in the model"""
    if REPLAY.get("on_role"):
        REPLAY["on_role"](name)


@_intrinsic("out_is_identity")
def v_out_is_identity(out, n):
    """out == [0, 1, ..., n-1]   (the functor is the identity tag on item ids)"""
    return list(out) == list(range(n))


@_intrinsic("out_is_chunked_permutation")
def v_out_is_chunked_permutation(out, n, cs):
    """out is a permutation of 0..n-1 in which every chunk [k*cs, (k+1)*cs) appears consecutively and in order"""
    out = list(out)
    if sorted(out) != list(range(n)):
        return False
    for j in range(len(out)):
        if out[j] % cs != 0 and (j == 0 or out[j - 1] != out[j] - 1):
            return False
    return True


@_intrinsic("queue_payload_free")
def v_queue_payload_free(q):
    """no payload-carrying item is left in the queue (bookkeeping tokens without payload are ignored)"""
    if hasattr(q, "_inspect"):
        items = q._inspect()
    else:
        items = []
        while True:
            try:
                items.append(q.get(False))
            except Exception:
                break
    return all(not (isinstance(it, tuple) and len(it) == 2 and it[1]) for it in items)


@_intrinsic("queue_has_no_none")
def v_queue_has_no_none(q):
    """no None (stop token / sentinel) is left in the queue"""
    return all(it is not None for it in q._inspect())


@_intrinsic("queue_len")
def v_queue_len(q):
    return q.qsize()


@_intrinsic("next_worker")
def v_next_worker(factory):
    """harness factory: hand out the next pre-built worker (initial workers first, then spares)"""
    wk = factory.all[factory.next]
    factory.next += 1
    return wk


def _mon_key(obj, what):
    return "%s.%s" % (getattr(obj, "_vf_name", None) or type(obj).__name__, what)


@_intrinsic("mon_inc")
def v_mon_inc(obj, what):
    """ghost counter (monitor) attached to an object; not a schedulable step"""
    k = _mon_key(obj, what)
    REPLAY["mon"][k] = REPLAY["mon"].get(k, 0) + 1


@_intrinsic("mon_get")
def v_mon_get(obj, what):
    return REPLAY["mon"].get(_mon_key(obj, what), 0)


@_intrinsic("fault")
def v_fault(name):
    """a Boolean chosen by the solver once per run (does begin() raise? ...)"""
    return bool(REPLAY["faults"].get(name, False))


@_intrinsic("thread_done")
def v_thread_done(obj):
    """has the worker process / thread object terminated?"""
    c = REPLAY.get("ctrl")
    name = getattr(obj, "_vf_name", None)
    if c is None:
        return not obj.is_alive()
    c.gate("is_done %s" % name)
    return c.is_finished(name)


# ------------------------------------------------------------------------------------------------ VM side
def dispatch(ex, ts, pst, th, name, args, kwargs):
    st = ts.frames[-1].stack
    w = ex.w
    if name == "param":
        pname = args[0]
        lo = args[1] if len(args) > 1 else kwargs.get("lo", 0)
        hi = args[2] if len(args) > 2 else kwargs.get("hi", 0)
        if not isinstance(lo, int) or not isinstance(hi, int):
            raise VMError("v_param bounds must be concrete (pass configuration constants as CInt)")
        st.append(w.param(pname, int(lo), int(hi)))
        return None
    if name == "input":
        st.append(InputIter(args[0], 0))
        return None
    if name == "assert":
        cond, label = args
        pst.set_flag("assert:" + label, z3.Not(as_bool(cond)) if is_z3(cond) else (not cond))
        st.append(None)
        return None
    if name == "out_is_identity":
        out, n = args
        if not isinstance(out, SList):
            raise VMError("v_out_is_identity expects a list")
        cs = [as_bv(out.length) == as_bv(n)]
        for j in range(out.cap):
            if j < len(out.slots):
                cs.append(z3.Implies(as_bv(n) > I(j), as_bv(out.slots[j]) == I(j)))
        st.append(z3.And(cs))
        return None
    if name == "out_is_chunked_permutation":
        out, n, csz = args
        if not isinstance(csz, int):
            raise VMError("chunk size must be concrete")
        nn = as_bv(n)
        cs = [as_bv(out.length) == nn]
        slots = [as_bv(x) for x in out.slots] + [I(0)] * (out.cap - len(out.slots))
        for j in range(out.cap):
            live = nn > I(j)
            cs.append(z3.Implies(live, z3.And(slots[j] >= I(0), slots[j] < nn)))
            for k in range(j + 1, out.cap):
                cs.append(z3.Implies(nn > I(k), slots[j] != slots[k]))
            # not the first element of its chunk => predecessor in the output is the previous item
            first_of_chunk = z3.Or([slots[j] == I(m) for m in range(0, out.cap, csz)])
            if j == 0:
                cs.append(z3.Implies(live, first_of_chunk))
            else:
                cs.append(z3.Implies(z3.And(live, z3.Not(first_of_chunk)), slots[j - 1] == slots[j] - I(1)))
        st.append(z3.And(cs))
        return None
    if name == "queue_payload_free":
        q = args[0]
        ln = pst.read("%s.len:i" % q.name, "i")
        from vf.bmc.values import unflatten, SOpt
        proto = default_of(q.elem)
        cs = []
        for j in range(q.cap):
            v = unflatten(proto, q.elem, "%s.%d" % (q.name, j), pst.read)
            payload = v.payload if isinstance(v, SOpt) else v
            none = v.is_none if isinstance(v, SOpt) else z3.BoolVal(False)
            if isinstance(payload, tuple) and len(payload) == 2 and isinstance(payload[1], SList):
                has = z3.And(z3.Not(none), as_bv(payload[1].length) > I(0))
            elif isinstance(payload, tuple) and len(payload) == 2 and isinstance(payload[1], SOpt) and isinstance(payload[1].payload, SList):
                has = z3.And(z3.Not(none), z3.Not(payload[1].is_none), as_bv(payload[1].payload.length) > I(0))
            else:
                has = z3.Not(none)
            cs.append(z3.Implies(ln > I(j), z3.Not(has)))
        ex.visible(ts, pst, "inspect %s" % q.name)
        st.append(z3.And(cs))
        return None
    if name == "next_worker":
        from vf.bmc.vm import Alternatives
        fac = args[0]
        n0 = "spare.next:i"
        w.statevars.setdefault(n0, ("i", fac.next))
        key = ("spare", id(fac))
        if key not in pst.refchoice:
            v = pst.read(n0, "i")
            alts = []
            for k in range(fac.next, len(fac.all)):
                def prep(t, p, k=k):
                    p.refchoice[key] = k
                alts.append((v == I(k), prep))

            def prep_over(t, p):
                p.refchoice[key] = -1
            alts.append((v >= I(len(fac.all)), prep_over))
            raise Alternatives(alts)
        k = pst.refchoice.pop(key)
        if k < 0:
            pst.set_flag("bound_exceeded", True)
            k = len(fac.all) - 1
        pst.write(n0, "i", I(k + 1))
        st.append(fac.all[k])
        return None
    if name == "mon_inc":
        n = "mon.%s:i" % _mon_key(args[0], args[1])
        w.declare(n, "i", 0)
        pst.write(n, "i", pst.read(n, "i") + I(1))
        pst.reads.discard(n)
        st.append(None)
        return None
    if name == "mon_get":
        n = "mon.%s:i" % _mon_key(args[0], args[1])
        w.declare(n, "i", 0)
        st.append(pst.read(n, "i"))
        return None
    if name == "fault":
        n = "fault.%s:b" % args[0]
        w.declare(n, "b", False)
        st.append(pst.read(n, "b"))
        return None
    if name == "text":
        st.append(args[0])
        return None
    if name == "role":
        st.append(None)
        return None
    if name == "storage_files_left":
        return ex.storage_file_op(ts, pst, th, "count_existing", I(0), [], {})
    if name == "texts_match":
        out, ids = args
        st.append(ex.seq_eq(out, ids) if isinstance(out, SList) and isinstance(ids, SList) else False)
        return None
    if name == "thread_done":
        tn = w.thread_of_obj.get(id(args[0])) or getattr(args[0], "_vf_name", None)
        ex.visible(ts, pst, "is_done %s" % tn)
        st.append(pst.read("done.%s:b" % tn, "b"))
        return None
    if name == "queue_has_no_none":
        q = args[0]
        from vf.bmc.values import unflatten, SOpt
        w.declare("%s.len:i" % q.name, "i", 0)
        ln = pst.read("%s.len:i" % q.name, "i")
        proto = default_of(q.elem)
        cs = []
        for j in range(q.cap):
            v = unflatten(proto, q.elem, "%s.%d" % (q.name, j), pst.read)
            if isinstance(v, SOpt):
                cs.append(z3.Implies(ln > I(j), z3.Not(v.is_none)))
        ex.visible(ts, pst, "inspect %s" % q.name)
        st.append(z3.And(cs) if cs else True)
        return None
    if name == "queue_len":
        q = args[0]
        ex.visible(ts, pst, "inspect %s" % q.name)
        st.append(pst.read("%s.len:i" % q.name, "i"))
        return None
    raise VMError("unknown intrinsic %s" % name)


def sorted_builtin(ex, ts, pst, th, args, kwargs):
    """sorted(list_of_tuples, key=lambda x: x[k]) for a bounded symbolic list: selection by rank (stable)."""
    st = ts.frames[-1].stack
    lst = args[0]
    key = kwargs.get("key")
    if not isinstance(lst, SList):
        raise VMError("sorted() of %r" % (lst,))
    if lst.elem is None:
        st.append(SList(lst.cap, 0, [], None))
        return None
    # key must be a projection x[k] (checked by probing the code object) or None
    proj = None
    if key is not None:
        import dis
        code = getattr(key, "code", None) or getattr(key, "__code__", None)
        names = [i.opname for i in dis.get_instructions(code)]
        consts = [i.argval for i in dis.get_instructions(code) if i.opname == "LOAD_CONST"]
        if "BINARY_SUBSCR" in names and consts and isinstance(consts[0], int):
            proj = consts[0]
        else:
            raise VMError("sorted(): only key=lambda x: x[k] is modelled")
    keys = [as_bv(x[proj]) if proj is not None else as_bv(x) for x in lst.slots]
    n = as_bv(lst.length)
    cap = lst.cap
    ranks = []
    for i in range(cap):
        r = I(0)
        for j in range(cap):
            if i == j:
                continue
            before = z3.Or(keys[j] < keys[i], z3.And(keys[j] == keys[i], z3.BoolVal(j < i)))
            r = r + z3.If(z3.And(n > I(j), before), I(1), I(0))
        ranks.append(r)
    out = []
    for p in range(cap):
        v = lst.slots[cap - 1]
        for i in range(cap - 2, -1, -1):
            v = ite(z3.And(n > I(i), ranks[i] == I(p)), lst.slots[i], v)
        out.append(v)
    st.append(SList(cap, lst.length, out, lst.elem))
    return None
