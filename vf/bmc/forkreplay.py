"""Replay of model schedules with REAL processes (os.fork / multiprocessing with the fork start method).

Every operation on a shared primitive that the model treats as one visible step is wrapped by a proxy that asks a
coordinator process for permission (gate) and reports completion (done); the coordinator grants the operations in the order
of the model's schedule and reports the first divergence between the schedule and what the real processes ask for. When the
schedule is exhausted (or after a divergence) it lets everything run freely. Messages travel over one pipe (atomic writes
below PIPE_BUF), permissions over one pipe per role.
"""
import os
import select
import signal
import time


class ForkWorld:
    def __init__(self, roles):
        self.req_r, self.req_w = os.pipe()
        self.roles = list(roles)
        self.go = {r: os.pipe() for r in roles}
        self.me = [roles[0]]

    def set_role(self, name):
        self.me[0] = name

    def send(self, msg):
        os.write(self.req_w, (msg.replace("\n", " ") + "\n").encode())

    def gate(self, op):
        self.send("REQ %s %s" % (self.me[0], op))
        os.read(self.go[self.me[0]][0], 1)

    def done(self):
        self.send("DONE %s" % self.me[0])

    def gated(self, op, fn, *a, **k):
        self.gate(op)
        try:
            return fn(*a, **k)
        finally:
            self.done()


def coordinate(fw, top_pid, sched, query, timeout=90, end_role="main"):
    """sched: list of (role, op). Returns dict(ops_executed, divergence, msgs, exited, crashed, timed_out)."""
    buf = b""
    pending = {}
    exited = set()
    msgs = []
    pos = 0
    busy = None
    busy_since = 0.0
    deadline = time.time() + timeout
    divergence = None
    crashed = None
    free_run = False
    ops = 0
    granted = []
    while end_role not in exited and time.time() < deadline and crashed is None:
        if busy is not None and time.time() - busy_since > 20.0:
            busy = None  # the operation blocks inside the real primitive (possible after a divergence only)
            free_run = True
            divergence = divergence or "operation %s did not complete (blocked inside the real primitive)" % (granted[-1:],)
        if busy is None:
            if pos < len(sched) and not free_run:
                role, op = sched[pos]
                if role in pending:
                    if pending[role] != op:
                        divergence = "step %d: the model schedules %s:%s but the real process asks for %s (after %s)" % (
                            pos, role, op, pending[role], granted[-4:])
                        free_run = True
                        continue
                    del pending[role]
                    busy, busy_since = role, time.time()
                    pos += 1
                    ops += 1
                    granted.append("%s:%s" % (role, op))
                    os.write(fw.go[role][1], b"g")
                elif role in exited:
                    divergence = "step %d: the model schedules %s:%s but the real process has finished" % (pos, role, op)
                    free_run = True
                    continue
            else:
                if pos >= len(sched) and pending and query in ("witness", "assert", "deadlock") and not free_run:
                    divergence = "the real processes perform operations after the end of the model's schedule: %s" % (pending,)
                    free_run = True
                if pending:
                    role = sorted(pending)[0]
                    del pending[role]
                    busy, busy_since = role, time.time()
                    os.write(fw.go[role][1], b"g")
        r, _, _ = select.select([fw.req_r], [], [], 0.2)
        if not r:
            continue
        buf += os.read(fw.req_r, 65536)
        while b"\n" in buf:
            ln, buf = buf.split(b"\n", 1)
            t = ln.decode(errors="replace").split(" ")
            if t[0] == "REQ":
                pending[t[1]] = t[2] if len(t) == 3 else " ".join(t[2:])
            elif t[0] == "DONE":
                if busy == t[1]:
                    busy = None
            elif t[0] == "EXIT":
                exited.add(t[1])
            elif t[0] == "CRASH":
                crashed = ln.decode(errors="replace")
            else:
                msgs.append(t)
    timed_out = end_role not in exited and crashed is None
    if end_role not in exited:
        try:
            os.killpg(os.getpgid(top_pid), signal.SIGKILL) if os.getpgid(top_pid) == top_pid else os.kill(top_pid, signal.SIGKILL)
        except OSError:
            pass
    try:
        os.waitpid(top_pid, 0)
    except OSError:
        pass
    return {"ops_executed": ops, "divergence": divergence, "msgs": msgs, "exited": sorted(exited), "crashed": crashed,
            "timed_out": timed_out, "schedule_steps": len(sched), "granted": granted}
