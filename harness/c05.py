"""C05 - FunctorMap (and mul_p_map) return map(f, data) in input order; terminate; repeated calls independent. Engine C."""
from vf.bmc import runner

META = {
    "explanation": "Bounded model checking with a symbolic schedule: the bytecode of FunctorMap.__enter__/__exit__/__call__ "
                   "(+ chunking), pools.FunctorWorker.run, maps.mul_p_map, workers.FunRunner.run and Buffer.* as loaded from /repo is executed symbolically into "
                   "control-flow automata (one per thread of control); z3 decides, for every interleaving of the parent loop "
                   "and the workers and every input length n<=N, that the output equals [f(0..n-1)], that no deadlock is "
                   "reachable, and (unwinding query) that every execution is shorter than K steps.",
    "bounds": {"quick": {"workers": "1,2", "chunk_size": "1,2", "items": "<=2", "calls": "1 (2 for one configuration)", "mul_p_map": "workers 1,2, items<=2"},
               "thorough": {"workers": "1,2", "chunk_size": "1,2", "items": "<=3", "calls": "1,2", "mul_p_map": "workers 1..3 (data shorter than the worker count included), items<=3"}},
    "outside_bounds": ["more items/workers/calls", "mul_p_map's class-level WORK_QUEUE bound is cpu_count() in reality; bounds 1 and 2 "
                       "are modelled", "spawn/forkserver pickling",
                       "multiprocessing.Queue feeder-thread reordering between different producers (queues are modelled "
                       "as atomic FIFOs; the reorder Buffer makes the result independent of arrival order)"],
    "assumptions": ["multiprocessing.Queue(maxsize) behaves as an atomic bounded FIFO; Process.start/join as thread start/join",
                    "items are only moved, never inspected (the functor is the identity tag on item ids)",
                    "z3's unsat is trusted; POR verdicts are cross-checked without POR on the smallest configuration"],
    "stubs": ["SimContext queues (atomic FIFO), Process start/join"],
}


def configs(tier):
    out = []
    if tier == "quick":
        out.append({"kind": "fmap", "workers": 1, "cs": 1, "nmax": 2, "calls": 1, "cross_check_por": True})
        out.append({"kind": "fmap", "workers": 2, "cs": 1, "nmax": 2, "calls": 1})
        out.append({"kind": "fmap", "workers": 1, "cs": 2, "nmax": 2, "calls": 1})
        out.append({"kind": "fmap", "workers": 1, "cs": 1, "nmax": 1, "calls": 2})
        out.append({"kind": "mulpmap", "workers": 1, "nmax": 2, "wq": 2})
        out.append({"kind": "mulpmap", "workers": 2, "nmax": 2, "wq": 1})
    else:
        for wk in (1, 2):
            for cs in (1, 2):
                out.append({"kind": "fmap", "workers": wk, "cs": cs, "nmax": 3, "calls": 1, "cross_check_por": wk == 1 and cs == 2})
        out.append({"kind": "fmap", "workers": 1, "cs": 1, "nmax": 2, "calls": 2})
        out.append({"kind": "fmap", "workers": 2, "cs": 1, "nmax": 2, "calls": 2})
        for wk in (1, 2, 3):
            for wq in (1, 2):
                out.append({"kind": "mulpmap", "workers": wk, "nmax": 3, "wq": wq})
    return out


def run(tier, seed):
    Ks = (24, 32, 40, 52, 64) if tier == "quick" else (32, 44, 56, 72, 90)
    return runner.run_property("C05", tier, seed, "harness.pools_common", configs(tier), ("assert", "deadlock"), Ks,
                               600 if tier == "quick" else 3000, META, wall_limit=1500 if tier == "quick" else 14000)
