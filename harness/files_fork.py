"""Scenario and set-up for C18 (Engine C): one RandomLineAccessFile / MemoryMappedRandomLineAccessFile / MapAccessFile is
opened in a parent process and then read by the parent and by forked children at the same time.

Model of the environment (vm.file_op): fork() gives every child a copy of the parent's Python object (fork_copy below,
executed by the parent immediately before Process.start) whose file handle refers to the SAME open file description as the
parent's - one shared read position; open() creates a new description with its own position. A line is represented by
its index. Everything between (RandomLineAccessFile.__getitem__, _read_line, _file_seek, _read_next_line, reopen_if_needed,
open, close; MapAccessFile.__getitem__, ...) is the repository's bytecode.
"""
import multiprocessing

from windpyutils.files import RandomLineAccessFile, MemoryMappedRandomLineAccessFile, MapAccessFile

from vf.bmc.values import CInt
from vf.bmc.intrinsics import v_param, v_assert

PATH = "/vf/modelled-file.txt"


class Reader(multiprocessing.Process):
    """a forked child: it only ever sees its own copy `f` of the parent's object"""

    def __init__(self, f, k, nreads, nlines):
        super().__init__()
        self.f = f
        self.k = k
        self.names = names_of(k)
        self.nreads = nreads
        self.nlines = nlines

    def run(self):
        reads(self.f, self.names, self.nreads, self.nlines)


def one_read(f, name, nlines):
    i = v_param(name, 0, nlines - 1)
    line = f[i]
    v_assert(line == i, "read-returns-the-requested-line")


def reads(f, names, nreads, nlines):
    if nreads >= 1:
        one_read(f, names[0], nlines)
    if nreads >= 2:
        one_read(f, names[1], nlines)
    if nreads >= 3:
        one_read(f, names[2], nlines)


def names_of(k):
    return tuple("p%d_r%d" % (k, j) for j in range(3))


P0 = names_of(0)


def fork_copy(child, parent):
    """what fork() does to the object: same attribute values, the handle refers to the same open file description.
    Placeholder: make() replaces it by a generated function with one assignment per scalar / handle attribute of the
    real object (whatever attributes the current source of the class defines), see gen_fork_copy."""
    raise NotImplementedError


def gen_fork_copy(obj):
    names = sorted(k for k, v in vars(obj).items() if v is None or isinstance(v, (bool, int)))
    src = "def fork_copy(child, parent):\n" + "".join("    child.%s = parent.%s\n" % (n, n) for n in names)
    ns = {"__name__": __name__}
    exec(compile(src, __file__ + ":generated-fork_copy", "exec"), ns)
    fn = ns["fork_copy"]
    fn.__module__ = __name__
    return fn, names


def scenario_fork_reads(f, r1, r2, r3, pre, nreads, nlines, mm, mid=0):
    f.open()
    if pre >= 1:
        one_read(f, "p0_pre0", nlines)  # the parent's position at fork time is whatever its last read left
    if r1 is not None:
        fork_copy(r1.f, f)
        r1.start()
    if mid >= 1:
        one_read(f, "p0_mid0", nlines)  # the second child is forked later: while the first one runs and after another parent read
    if r2 is not None:
        fork_copy(r2.f, f)
        r2.start()
    if r3 is not None:
        fork_copy(r3.f, f)
        r3.start()
    reads(f, P0, nreads, nlines)
    if r1 is not None:
        r1.join()
    if r2 is not None:
        r2.join()
    if r3 is not None:
        r3.join()
    f.close()


LINE_LENGTHS = (3, 4, 5)  # bytes per line including the newline -> offsets 0, 3, 7; size 12


def layout(nlines):
    offs, pos = [], 0
    for ln in LINE_LENGTHS[:nlines]:
        offs.append(pos)
        pos += ln
    return offs, pos


def build_object(kind, path, offs):
    if kind == "rla":
        return RandomLineAccessFile(path, list(offs))
    if kind == "mmap":
        return MemoryMappedRandomLineAccessFile(path, list(offs))
    if kind == "map":
        return MapAccessFile(path, {i: o for i, o in enumerate(offs)})
    raise ValueError(kind)


def make(cfg, ctx, mode, ctrl=None, restore=None):
    from vf.bmc import prims
    kind = cfg["kind"]
    nlines = cfg.get("nlines", 3)
    children = cfg.get("children", 2)
    offs, size = layout(nlines)
    F = prims.SimFile(PATH, offs, size)
    f = build_object(kind, PATH, offs)
    rs = []
    for k in range(1, 4):
        if k <= children:
            r = Reader(build_object(kind, PATH, offs), CInt(k), CInt(cfg.get("reads", 1)), CInt(nlines))
            r._vf_name = "child%d" % k
            rs.append(r)
        else:
            rs.append(None)
    fn, copied = gen_fork_copy(f)
    globals()["fork_copy"] = fn
    info = {"list_caps": {}, "default_cap": max(nlines, 1), "dict_keys": nlines + 1, "files": {PATH: F},
            "fork_functions": ["fork_copy"], "fork_copied_attributes": copied}
    return {"scenario": scenario_fork_reads,
            "args": (f, rs[0], rs[1], rs[2], CInt(cfg.get("pre", 0)), CInt(cfg.get("reads", 1)), CInt(nlines), kind == "mmap", CInt(cfg.get("mid", 0))),
            "info": info}


# ---------------------------------------------------------------------------------------------------- replay
# A counterexample (or witness / prefix) schedule of the model is executed with REAL processes: the parent opens a real
# file and os.fork()s the children, so the open file description really is shared; every OS-level file operation of
# every process (open / seek / readline / close / mmap) asks a coordinator process for permission and the coordinator
# grants them in the order of the model's schedule. Nothing of the model is used to judge the outcome: each read is
# compared with the line of the real file.
def _line_text(i):
    return chr(ord("a") + i) * (LINE_LENGTHS[i] - 1)


def custom_replay(spec):
    import os
    import select
    import shutil
    import tempfile
    import time
    import windpyutils.files as wf
    cfg = spec["cfg"]
    query = spec["query"]
    params = spec.get("params") or {}
    kind = cfg["kind"]
    nlines = cfg.get("nlines", 3)
    children = cfg.get("children", 2)
    nreads = cfg.get("reads", 1)
    pre = cfg.get("pre", 0)
    offs, size = layout(nlines)
    sched = []
    for s in spec.get("schedule") or []:
        op = (s.get("op") or "").split(";")[0].strip().split(" ")[0]
        if op.startswith("F.") or op.startswith("Fmm."):
            sched.append((s["thread"], op))
    d = tempfile.mkdtemp(prefix="vf_c18_")
    out = {"reproduced": False, "observed": None, "divergence": None, "asserts": [], "ops_executed": 0, "end": None}
    try:
        path = os.path.join(d, "lines.txt")
        with open(path, "w", newline="\n") as fh:
            for i in range(nlines):
                fh.write(_line_text(i) + "\n")
        assert os.path.getsize(path) == size
        req_r, req_w = os.pipe()
        roles = ["main"] + ["child%d" % k for k in range(1, children + 1)]
        go = {r: os.pipe() for r in roles}
        me = ["main"]

        def send(msg):
            os.write(req_w, (msg + "\n").encode())

        def gate(op):
            send("REQ %s %s" % (me[0], op))
            os.read(go[me[0]][0], 1)

        def done():
            send("DONE %s" % me[0])

        class GFile:
            def __init__(self, real):
                self._real = real

            def seek(self, off):
                gate("F.seek")
                try:
                    return self._real.seek(off)
                finally:
                    done()

            def readline(self):
                gate("F.readline")
                try:
                    return self._real.readline()
                finally:
                    done()

            def close(self):
                gate("F.close")
                try:
                    return self._real.close()
                finally:
                    done()

            def fileno(self):
                gate("F.fileno")
                try:
                    return self._real.fileno()
                finally:
                    done()

        class GMmap:
            def __init__(self, real):
                self._real = real

            def seek(self, off):
                gate("Fmm.seek")
                try:
                    return self._real.seek(off)
                finally:
                    done()

            def readline(self):
                gate("Fmm.readline")
                try:
                    return self._real.readline()
                finally:
                    done()

            def close(self):
                gate("Fmm.close")
                try:
                    return self._real.close()
                finally:
                    done()

        real_open = open
        real_mmap = wf.mmap

        def gated_open(p, *a, **k):
            if p != path:
                return real_open(p, *a, **k)
            gate("F.open")
            try:
                return GFile(real_open(p, *a, **k))
            finally:
                done()

        class MmapShim:
            ACCESS_READ = real_mmap.ACCESS_READ

            @staticmethod
            def mmap(fileno, *a, **k):
                gate("Fmm.mmap")
                try:
                    return GMmap(real_mmap.mmap(fileno, *a, **k))
                finally:
                    done()

        def do_reads(f, names, n):
            for j in range(n):
                i = params.get(names[j], 0)
                try:
                    line = f[i]
                    send("READ %s %s %d %s" % (me[0], names[j], i, line.rstrip("\n").encode().hex() or "-"))
                except BaseException as e:  # noqa
                    send("RAISED %s %s %d %s" % (me[0], names[j], i, type(e).__name__))

        def parent_role():
            wf.open = gated_open
            wf.mmap = MmapShim
            f = build_object(kind, path, offs)
            f.open()
            if pre >= 1:
                do_reads(f, ("p0_pre0",), 1)
            pids = []
            for k in range(1, children + 1):
                if k == 2 and cfg.get("mid", 0) >= 1:
                    do_reads(f, ("p0_mid0",), 1)
                pid = os.fork()  # the child owns a copy of f whose handle shares the parent's open file description
                if pid == 0:
                    me[0] = "child%d" % k
                    try:
                        do_reads(f, names_of(k), nreads)
                    finally:
                        send("EXIT %s" % me[0])
                        os._exit(0)
                pids.append(pid)
            do_reads(f, P0, nreads)
            for pid in pids:
                os.waitpid(pid, 0)
            f.close()
            send("EXIT main")
            os._exit(0)

        top = os.fork()
        if top == 0:
            try:
                parent_role()
            except BaseException as e:  # noqa
                send("CRASH %s %s" % (me[0], type(e).__name__))
            os._exit(1)
        # ------------------------------------------------ coordinator
        buf = b""
        pending = {}
        exited = set()
        reads = []
        raised = []
        pos = 0
        busy = None
        deadline = time.time() + 60
        divergence = None
        crashed = None
        free_run = False

        def grant(role):
            os.write(go[role][1], b"g")

        while "main" not in exited and time.time() < deadline and crashed is None:
            # grant the next operation if possible
            if busy is None:
                if pos < len(sched) and not free_run:
                    role, op = sched[pos]
                    if role in pending:
                        if pending[role] != op:
                            divergence = "step %d: the model schedules %s:%s but the real process asks for %s" % (pos, role, op, pending[role])
                            free_run = True
                            continue
                        del pending[role]
                        busy = role
                        pos += 1
                        out["ops_executed"] += 1
                        grant(role)
                    elif role in exited:
                        divergence = "step %d: the model schedules %s:%s but the real process has finished" % (pos, role, op)
                        free_run = True
                        continue
                else:
                    if pos >= len(sched) and pending and query in ("witness", "assert") and not free_run:
                        divergence = "the real processes perform file operations after the end of the model's schedule: %s" % (pending,)
                        free_run = True
                    if pending:
                        role = sorted(pending)[0]
                        del pending[role]
                        busy = role
                        grant(role)
            r, _, _ = select.select([req_r], [], [], 0.5)
            if not r:
                continue
            buf += os.read(req_r, 65536)
            while b"\n" in buf:
                ln, buf = buf.split(b"\n", 1)
                t = ln.decode().split(" ")
                if t[0] == "REQ":
                    pending[t[1]] = t[2]
                elif t[0] == "DONE":
                    busy = None
                elif t[0] == "READ":
                    reads.append((t[1], t[2], int(t[3]), "" if t[4] == "-" else bytes.fromhex(t[4]).decode(errors="replace")))
                elif t[0] == "RAISED":
                    raised.append((t[1], t[2], int(t[3]), t[4]))
                elif t[0] == "EXIT":
                    exited.add(t[1])
                elif t[0] == "CRASH":
                    crashed = ln.decode()
        if "main" not in exited:
            import signal
            try:
                os.kill(top, signal.SIGKILL)
            except OSError:
                pass
        try:
            os.waitpid(top, 0)
        except OSError:
            pass
        wrong = [(role, name, i, got) for (role, name, i, got) in reads if got != _line_text(i)]
        out["reads"] = [list(x) for x in reads]
        out["asserts"] = ["read-returns-the-requested-line"] * len(wrong) + ["uncaught %s" % x[3] for x in raised]
        out["divergence"] = divergence
        out["end"] = "done" if "main" in exited and not crashed else ("crashed: %s" % crashed if crashed else "timeout")
        if crashed or "main" not in exited:
            out["crashed"] = True
        if wrong or raised:
            out["reproduced"] = query == "assert"
            out["observed"] = "; ".join(["%s asked for line %d (%r) and got %r" % (role, i, _line_text(i), got) for (role, name, i, got) in wrong] +
                                        ["%s reading line %d raised %s" % (role, i, exc) for (role, name, i, exc) in raised])
        else:
            out["observed"] = "all %d reads returned the requested line" % len(reads)
        return out
    finally:
        shutil.rmtree(d, ignore_errors=True)
