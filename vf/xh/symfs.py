"""SymFS - the I/O stub of Engine S for the file properties (C11, C12, C13, C20); DESIGN.md 2.3.

A file's content is ONE Python ``str`` which may be a CrossHair symbolic string (arbitrary Unicode). Byte offsets
are UTF-8 lengths of prefixes (1-4 bytes per code point, computed here). The stub is installed into the namespace
of ``windpyutils.files`` (open, mmap, os, tempfile, print, multiprocessing); nothing else is touched.

Contracts modelled (all validated against the real open()/mmap on concrete contents by ``validate()``):
 * open(p, "rb")           : readline() up to and including "\n"; tell(); seek(); fileno(); iteration
 * open(p, "r", newline=N) : text reader, universal newlines for N=None ("\r", "\r\n" -> "\n", line end at any of
                             them), untranslated for N="" and N="\n"; seek(byte offset); readline(); iteration; read()
 * open(p, "w"|"a")        : writer collecting write() calls; content visible after every write (flush contract)
 * mmap.mmap(fileno, 0, access=ACCESS_READ): seek/readline/close; ValueError for an empty file
 * os.remove, os.getpid, tempfile.NamedTemporaryFile(delete=False, dir=d), multiprocessing.Manager().list()
 * print(*a, file=f, end=e, sep=s, flush=b) = f.write(s.join(map(str, a))); f.write(e)   (CrossHair's own print
   interception would realise symbolic strings, so the documented contract is used instead)
In replay mode the harnesses use RealFS (real temporary files, real open/mmap) instead.
"""
import os as _os
import shutil
import tempfile as _tempfile


class SymFSError(Exception):
    pass


def utf8len(ch):
    o = ord(ch)
    if o < 0x80:
        return 1
    if o < 0x800:
        return 2
    if o < 0x10000:
        return 3
    return 4


def byte_len(s):
    n = 0
    for ch in s:
        n += utf8len(ch)
    return n


class FakeBytes:
    """What a binary readline() returns: truthiness, len (in bytes) and decode()."""

    def __init__(self, s):
        self.s = s

    def __bool__(self):
        if len(self.s) > 0:  # (a plain bool even when the length is symbolic)
            return True
        return False

    def __len__(self):
        return byte_len(self.s)

    def decode(self, *a):
        return self.s

    def __eq__(self, other):
        if isinstance(other, FakeBytes):
            return self.s == other.s
        if isinstance(other, bytes):
            return self.s == other.decode("utf-8")
        return NotImplemented


class _Handle:
    def __init__(self, fs, path, mode):
        self.fs = fs
        self.path = path
        self.mode = mode
        self.closed = False
        self.hid = len(fs.handles)
        self.name = path
        fs.handles.append(self)

    def close(self):
        self.closed = True

    def __enter__(self):
        return self

    def __exit__(self, *a):
        self.close()
        return False

    def fileno(self):
        self._chk()
        return 1000 + self.hid

    def _chk(self):
        if self.closed:
            raise ValueError("I/O operation on closed file.")

    def flush(self):
        pass


class _Reader(_Handle):
    """Shared position logic: ci = character index into the content, bi = byte offset."""

    def __init__(self, fs, path, mode, newline=None, binary=False):
        super().__init__(fs, path, mode)
        self.newline = newline
        self.binary = binary
        self.ci = 0
        self.bi = 0

    def _content(self):
        return self.fs.files[self.path]

    def seek(self, off, whence=0):
        self._chk()
        if whence != 0:
            raise SymFSError("only absolute seeks are modelled")
        c = self._content()
        b = 0
        j = 0
        n = len(c)
        while j < n and b < off:
            b += utf8len(c[j])
            j += 1
        if b != off and j < n:
            raise SymFSError("seek into the middle of a character (offset %r)" % (off,))
        if b < off:
            b = off  # beyond the end: reads return empty
        self.ci = j
        self.bi = b
        return off

    def tell(self):
        self._chk()
        return self.bi

    def _line_end(self, i):
        """returns (index after the terminator, index where the line content ends, terminator_found)"""
        c = self._content()
        n = len(c)
        j = i
        universal = (not self.binary) and self.newline in (None, "")
        while j < n:
            ch = c[j]
            if ch == "\n":
                return j + 1, j, True
            if universal and ch == "\r":
                if j + 1 < n and c[j + 1] == "\n":
                    return j + 2, j, True
                return j + 1, j, True
            j += 1
        return n, n, False

    def readline(self, *a):
        self._chk()
        c = self._content()
        i = self.ci
        if i >= len(c):
            return FakeBytes("") if self.binary else ""
        nxt, end, found = self._line_end(i)
        raw = c[i:nxt]
        self.ci = nxt
        self.bi += byte_len(raw)
        if self.binary:
            return FakeBytes(raw)
        if found and self.newline is None:
            return c[i:end] + "\n"  # universal newlines: terminator translated
        return raw

    def read(self, *a):
        self._chk()
        out = []
        while True:
            line = self.readline()
            if not line:
                break
            out.append(line.s if self.binary else line)
        s = "".join(out)
        return FakeBytes(s) if self.binary else s

    def __iter__(self):
        while True:
            line = self.readline()
            if not line:
                return
            yield line

    def readlines(self):
        return list(self)


class _Writer(_Handle):
    def __init__(self, fs, path, mode):
        super().__init__(fs, path, mode)
        if mode.startswith("w") or path not in fs.files:
            fs.files[path] = ""
            fs.removed.discard(path)

    def write(self, s):
        self._chk()
        self.fs.files[self.path] = self.fs.files[self.path] + s
        return len(s)

    def tell(self):
        self._chk()
        return byte_len(self.fs.files[self.path])


class _Mmap:
    ACCESS_READ = 1

    def __init__(self, fs):
        self.fs = fs

    def mmap(self, fileno, length, access=None, **kw):
        h = self.fs.handles[fileno - 1000]
        if h.closed:
            raise ValueError("mmap of a closed file")
        if len(self.fs.files[h.path]) == 0:
            raise ValueError("cannot mmap an empty file")
        return _Reader(self.fs, h.path, "mmap", binary=True)


class _Os:
    def __init__(self, fs):
        self.fs = fs
        self.path = _os.path

    def getpid(self):
        return self.fs.pid

    def remove(self, p):
        if p not in self.fs.files:
            raise FileNotFoundError(p)
        del self.fs.files[p]
        self.fs.removed.add(p)


class _Tmp:
    def __init__(self, fs):
        self.fs = fs

    def NamedTemporaryFile(self, delete=True, dir=None, **kw):
        self.fs.tmp_counter += 1
        name = "%s/tmp%04d" % (dir if dir is not None else "/symtmp", self.fs.tmp_counter)
        h = _Writer(self.fs, name, "w")
        return h


class _ManagerList(list):
    pass


class _Manager:
    def __init__(self, fs):
        self.fs = fs
        self.entered = 0
        self.exited = 0
        fs.managers.append(self)

    def __enter__(self):
        self.entered += 1
        return self

    def __exit__(self, *a):
        self.exited += 1
        return False

    def list(self, *a):
        return _ManagerList(*a)


class _Mp:
    def __init__(self, fs):
        self.fs = fs

    def Manager(self):
        return _Manager(self.fs)


def sym_print(*args, sep=" ", end="\n", file=None, flush=False):
    if file is None:
        return
    parts = []
    for a in args:
        parts.append(a if isinstance(a, str) else str(a))
    file.write(sep.join(parts))
    file.write(end)


class SymFS:
    def __init__(self):
        self.files = {}
        self.removed = set()
        self.handles = []
        self.managers = []
        self.pid = 4242
        self.tmp_counter = 0
        self._saved = None

    # -- API used by harnesses (same as RealFS)
    def put(self, name, content):
        p = "/sym/" + name
        self.files[p] = content
        return p

    def path(self, name):
        return "/sym/" + name

    def content(self, path):
        return self.files.get(path)

    def exists(self, path):
        return path in self.files

    def open_for_write(self, path):
        return self.open(path, "w")

    def open(self, path, mode="r", buffering=-1, encoding=None, errors=None, newline=None, **kw):
        if not isinstance(path, str):
            raise SymFSError("only str paths are modelled")
        if "w" in mode or "a" in mode:
            return _Writer(self, path, mode)
        if path not in self.files:
            raise FileNotFoundError(path)
        if "b" in mode:
            return _Reader(self, path, mode, binary=True)
        return _Reader(self, path, mode, newline=newline)

    def install(self, module):
        self._saved = (module, {k: module.__dict__.get(k, _MISSING) for k in
                                ("open", "mmap", "os", "tempfile", "print", "multiprocessing")})
        module.open = self.open
        module.mmap = _Mmap(self)
        module.os = _Os(self)
        module.tempfile = _Tmp(self)
        module.print = sym_print
        module.multiprocessing = _Mp(self)

    def uninstall(self):
        if self._saved:
            module, saved = self._saved
            for k, v in saved.items():
                if v is _MISSING:
                    module.__dict__.pop(k, None)
                else:
                    module.__dict__[k] = v
            self._saved = None

    def cleanup(self):
        self.uninstall()

    def open_handles(self):
        return [h for h in self.handles if not h.closed]


_MISSING = object()


class RealFS:
    """Same harness-facing API on real temporary files (replay mode): the repo code uses the real open/mmap/os."""

    def __init__(self):
        self.dir = _tempfile.mkdtemp(prefix="vf_replay_")
        self.pid = _os.getpid()

    def put(self, name, content):
        p = _os.path.join(self.dir, name)
        with open(p, "w", encoding="utf-8", newline="") as f:
            f.write(content)
        return p

    def path(self, name):
        return _os.path.join(self.dir, name)

    def content(self, path):
        if not _os.path.exists(path):
            return None
        with open(path, "r", encoding="utf-8", newline="") as f:
            return f.read()

    def exists(self, path):
        return _os.path.exists(path)

    def open_for_write(self, path):
        return open(path, "w", encoding="utf-8")

    def install(self, module):
        pass

    def cleanup(self):
        shutil.rmtree(self.dir, ignore_errors=True)


def make_fs(module, mode):
    """mode: h.MODE. Symbolic and twin runs get SymFS installed into `module`; replays get RealFS."""
    if mode == "replay":
        return RealFS()
    fs = SymFS()
    fs.install(module)
    return fs


def validate(samples=None):
    """Differential validation of the reader stubs against the real open()/mmap (not the deciding step).
    Returns (number of contents compared, list of mismatches)."""
    import itertools
    import mmap
    alphabet = ["a", "é", "€", "\U0001F600", "\n", "\r"]
    contents = [""]
    for L in range(1, 4):
        contents.extend("".join(t) for t in itertools.product(alphabet, repeat=L))
    contents.extend(["ab\r\ncd\n", "x\n\ny", "\r\r\n\n", "a\rb\nc", "€\néé\r\n\U0001F600"])
    if samples:
        contents = contents[:samples]
    d = _tempfile.mkdtemp(prefix="vf_symfs_")
    bad = []
    try:
        for k, c in enumerate(contents):
            p = _os.path.join(d, "f%d" % k)
            with open(p, "w", encoding="utf-8", newline="") as f:
                f.write(c)
            fs = SymFS()
            sp = fs.put("f", c)
            # binary scan: readline/tell
            real_offs, stub_offs = [], []
            with open(p, "rb") as f:
                while True:
                    line = f.readline()
                    real_offs.append((line.decode("utf-8"), f.tell()))
                    if not line:
                        break
            sf = fs.open(sp, "rb")
            while True:
                line = sf.readline()
                stub_offs.append((line.decode(), sf.tell()))
                if not line:
                    break
            if real_offs != stub_offs:
                bad.append(("rb", c, real_offs, stub_offs))
            starts = [0] + [o for _, o in real_offs[:-1]]
            for nl in (None, "", "\n"):
                with open(p, "r", encoding="utf-8", newline=nl) as rf:
                    st = fs.open(sp, "r", newline=nl)
                    for o in starts:
                        rf.seek(o)
                        st.seek(o)
                        a = [rf.readline(), rf.readline()]
                        b = [st.readline(), st.readline()]
                        if a != b:
                            bad.append(("r", nl, c, o, a, b))
                with open(p, "r", encoding="utf-8", newline=nl) as rf:
                    if list(rf) != list(fs.open(sp, "r", newline=nl)):
                        bad.append(("iter", nl, c))
            if c:
                with open(p, "rb") as bf:
                    mm = mmap.mmap(bf.fileno(), 0, access=mmap.ACCESS_READ)
                    sb = fs.open(sp, "rb")
                    sm = _Mmap(fs).mmap(sb.fileno(), 0, access=1)
                    for o in starts:
                        mm.seek(o)
                        sm.seek(o)
                        a = [mm.readline().decode("utf-8"), mm.readline().decode("utf-8")]
                        b = [sm.readline().decode(), sm.readline().decode()]
                        if a != b:
                            bad.append(("mmap", c, o, a, b))
                    mm.close()
            else:
                try:
                    sb = fs.open(sp, "rb")
                    _Mmap(fs).mmap(sb.fileno(), 0, access=1)
                    bad.append(("mmap-empty", c))
                except ValueError:
                    pass
    finally:
        shutil.rmtree(d, ignore_errors=True)
    return len(contents), bad
