"""C07 - LFUCache: one arbitrary operation from every reachable state (inductive step).

State: every sequence of n <= cap pairwise distinct keys whose use counts are non-decreasing along the list
(counts 1..M, the count vector is fixed per job, every tie order is covered because keys are symbolic).
Construction through the API: keys are stored from the last to the first and each is looked up (count-1) times
right after its store; it stays at the head because every node behind it already has a count >= its final one.
Oracle: content = set of (key, value, count); the order among equal counts is left free (the property leaves
ties open), so the post-state must be *some* non-decreasing arrangement of the expected content, with the full
representation (dict <-> nodes <-> links/size, Item.meta == model count) consistent.
"""
from windpyutils.structures.caches import LFUCache

from vf import h
from vf.xh.engine import Job

ASSOC = ("windpyutils/structures/caches.py",)

OPS = ["setitem", "getitem", "delitem", "contains", "iter_len", "keys", "values", "items", "get", "pop", "popitem",
       "clear", "update", "setdefault"]

META = {
    "level": "other",
    "explanation": "Bounded symbolic execution (CrossHair/z3) of the real LFUCache + DoublyLinkedList code: from every "
                   "state with capacity<=C and use counts<=M (all tie orders, unbounded symbolic int keys/values) every "
                   "mapping operation is compared with a content+count reference model (ties free) and the full "
                   "representation invariant; views are consumed under an element budget. Inductive step => histories "
                   "of any length whose counts stay <= M+1.",
    "bounds": {"quick": {"capacity": "1..3", "max_count": 3}, "thorough": {"capacity": "1..4", "max_count": 4}},
    "outside_bounds": ["capacities / use counts above the bound (the code only compares counts with <, all order "
                       "patterns of adjacent counts occur within the bound)", "max_size < 1",
                       "== against mappings with symbolic keys (eq jobs use concrete distinct keys)"],
    "assumptions": ["dict semantics of the cache's internal dictionary = AssocDict in symbolic runs; counterexamples "
                    "are replayed on the real dict", "CrossHair 'Confirmed over all paths' / z3 unsat are trusted"],
    "stubs": ["AssocDict replaces the {} display in windpyutils/structures/caches.py (symbolic runs only)",
              "exception message formatting in raise statements replaced by a constant"],
    "functions": ["windpyutils/structures/caches.py:LFUCache.%s" % m for m in
                  ["__init__", "__getitem__", "__len__", "__iter__", "__setitem__", "__delitem__", "_inc_freq"]] +
                 ["windpyutils/structures/lists.py:DoublyLinkedList.%s" % m for m in
                  ["prepend", "remove", "move_after", "__iter__", "iter_nodes", "__len__"]] +
                 ["collections.abc Mapping/MutableMapping mixins executed as they are"],
}


def _build(cap, ks, vs, cnts):
    c = LFUCache(cap)
    idx = len(ks) - 1
    while idx >= 0:
        c[ks[idx]] = vs[idx]
        t = 1
        while t < cnts[idx]:
            c[ks[idx]]
            t += 1
        idx -= 1
    return c


def _find(model, k):
    i = 0
    for e in model:
        if e[0] == k:
            return i
        i += 1
    return -1


def _check(c, exp, tag, slack=False):
    """exp: list of [key, value, count] (pairwise distinct keys, any order). slack: each count may be +1 (views)."""
    n = len(exp)
    if len(c) != n:
        return h.fail(tag + ":len")
    if n > c.max_size:
        return h.fail(tag + ":over-capacity")
    lst = c.list
    node = lst.head
    prev = None
    used = [False] * n
    walked = []
    last = 0
    i = 0
    while node is not None:
        if i >= n:
            return h.fail(tag + ":rep-list-long")
        if node.prev_node is not prev:
            return h.fail(tag + ":rep-prev-link")
        j = _find(exp, node.data.key)
        if j < 0 or used[j]:
            return h.fail(tag + ":content-key")
        used[j] = True
        if not (node.data.value == exp[j][1]):
            return h.fail(tag + ":value")
        m = node.data.meta
        if slack:
            if m != exp[j][2] and m != exp[j][2] + 1:
                return h.fail(tag + ":count")
        elif m != exp[j][2]:
            return h.fail(tag + ":count")
        if m < last:
            return h.fail(tag + ":order-not-by-count")
        last = m
        if c.cache[exp[j][0]] is not node:
            return h.fail(tag + ":rep-dict-node")
        walked.append(node.data.key)
        prev = node
        node = node.next_node
        i += 1
    if i != n:
        return h.fail(tag + ":rep-list-short")
    if lst.tail is not prev:
        return h.fail(tag + ":rep-tail")
    if len(lst) != n:
        return h.fail(tag + ":rep-size")
    if len(c.cache) != n:
        return h.fail(tag + ":rep-dict-len")
    got = []
    for key in c:
        got.append(key)
        if len(got) > n + 1:
            return h.fail(tag + ":iter-too-long")
    if len(got) != n:
        return h.fail(tag + ":iter-len")
    i = 0
    for key in got:
        if not (key == walked[i]):
            return h.fail(tag + ":iter-order")
        i += 1
    return h.ok()


def _consume(it, budget):
    out = []
    for x in it:
        out.append(x)
        if len(out) >= budget:
            return out, False
    return out, True


def _store(c, model, cap, k, v, tag):
    """Model of c[k] = v applied AFTER the real store happened (needs to see which key was evicted).
    Returns None on success or a failed verdict."""
    i = _find(model, k)
    if i >= 0:
        model[i][1] = v
        model[i][2] += 1
        return None
    if len(model) >= cap:
        # exactly one old key must be gone and it must have had the minimal count
        present = []
        node = c.list.head
        guard = 0
        while node is not None and guard <= cap + 1:
            present.append(node.data.key)
            node = node.next_node
            guard += 1
        gone = -1
        j = 0
        for e in model:
            found = False
            for pk in present:
                if pk == e[0]:
                    found = True
                    break
            if not found:
                if gone >= 0:
                    return h.fail(tag + ":evicted-more-than-one")
                gone = j
            j += 1
        if gone < 0:
            return h.fail(tag + ":nothing-evicted")
        mn = model[0][2]
        for e in model:
            if e[2] < mn:
                mn = e[2]
        if model[gone][2] != mn:
            return h.fail(tag + ":victim-not-least-frequent")
        del model[gone]
    model.append([k, v, 1])
    return None


def step(k0: int, k1: int, k2: int, k3: int, v0: int, v1: int, v2: int, v3: int,
         k: int, v: int, kk: int, vv: int, flag: bool) -> bool:
    """
    pre: k0 != k1 and k0 != k2 and k0 != k3
    pre: k1 != k2 and k1 != k3 and k2 != k3
    post: _
    """
    cap = h.P["cap"]
    cnts = h.P["cnts"]
    n = len(cnts)
    op = h.P["op"]
    ks = [k0, k1, k2, k3][:n]
    vs = [v0, v1, v2, v3][:n]
    c = _build(cap, ks, vs, cnts)
    model = [[ks[i], vs[i], cnts[i]] for i in range(n)]
    pre = _check(c, model, "build")
    if h.MODE != "twin" and not pre:
        return pre
    # the construction must give exactly the requested order
    node = c.list.head
    for i in range(n):
        if not (node.data.key == ks[i]):
            return h.fail("build:order")
        node = node.next_node
    budget = 2 * cap + 3
    tag = op
    try:
        if op == "setitem":
            c[k] = v
            bad = _store(c, model, cap, k, v, tag)
            if bad is not None:
                return bad
        elif op == "getitem":
            i = _find(model, k)
            try:
                r = c[k]
            except KeyError:
                if i >= 0:
                    return h.fail("getitem:keyerror-on-present")
                return _check(c, model, tag)
            if i < 0:
                return h.fail("getitem:value-for-absent")
            if not (r == model[i][1]):
                return h.fail("getitem:wrong-value")
            model[i][2] += 1
        elif op == "delitem":
            i = _find(model, k)
            try:
                del c[k]
            except KeyError:
                if i >= 0:
                    return h.fail("delitem:keyerror-on-present")
                return _check(c, model, tag)
            if i < 0:
                return h.fail("delitem:no-keyerror")
            del model[i]
        elif op == "contains":
            i = _find(model, k)
            r = k in c
            if r != (i >= 0):
                return h.fail("contains:wrong")
            if i >= 0 and c.cache[k].data.meta == model[i][2] + 1:
                model[i][2] += 1  # a membership test may or may not count as a use
        elif op == "iter_len":
            pass
        elif op == "keys":
            got, done = _consume(c.keys(), budget)
            if not done:
                return h.fail("keys:does-not-terminate")
            if len(got) != n:
                return h.fail("keys:len")
            i = 0
            for key in got:
                if not (key == model[i][0]):
                    return h.fail("keys:order")
                i += 1
        elif op == "values" or op == "items":
            view = c.values() if op == "values" else c.items()
            if len(view) != n:
                return h.fail(op + ":view-len")
            got, done = _consume(view, budget)
            if not done:
                return h.fail(op + ":does-not-terminate")
            if len(got) != n:
                return h.fail(op + ":count")
            used = [False] * n
            for g in got:
                hit = -1
                i = 0
                for e in model:
                    if not used[i]:
                        if op == "values":
                            if g == e[1]:
                                hit = i
                                break
                        elif g[1] == e[1] and g[0] == e[0]:
                            hit = i
                            break
                    i += 1
                if hit < 0:
                    return h.fail(op + ":content")
                used[hit] = True
            return _check(c, model, tag, slack=True)
        elif op == "get":
            i = _find(model, k)
            r = c.get(k, v)
            if i >= 0:
                if not (r == model[i][1]):
                    return h.fail("get:wrong-value")
                model[i][2] += 1
            elif not (r == v):
                return h.fail("get:default")
        elif op == "pop":
            i = _find(model, k)
            if flag:
                r = c.pop(k, v)
                if i >= 0:
                    if not (r == model[i][1]):
                        return h.fail("pop:wrong-value")
                    del model[i]
                elif not (r == v):
                    return h.fail("pop:default")
            else:
                try:
                    r = c.pop(k)
                except KeyError:
                    if i >= 0:
                        return h.fail("pop:keyerror-on-present")
                    return _check(c, model, tag)
                if i < 0:
                    return h.fail("pop:no-keyerror")
                if not (r == model[i][1]):
                    return h.fail("pop:wrong-value")
                del model[i]
        elif op == "popitem":
            try:
                rk, rv = c.popitem()
            except KeyError:
                if n > 0:
                    return h.fail("popitem:keyerror-on-nonempty")
                return _check(c, model, tag)
            if n == 0:
                return h.fail("popitem:no-keyerror")
            i = _find(model, rk)
            if i < 0 or not (rv == model[i][1]):
                return h.fail("popitem:not-in-content")
            del model[i]
        elif op == "clear":
            c.clear()
            model = []
        elif op == "update":
            m = h.P["m"]
            pairs = [(k, v), (kk, vv)][:m]
            for pk, pv in pairs:  # one pair at a time so that the model can see each eviction
                c.update([(pk, pv)])
                bad = _store(c, model, cap, pk, pv, tag)
                if bad is not None:
                    return bad
        elif op == "setdefault":
            i = _find(model, k)
            r = c.setdefault(k, v)
            if i >= 0:
                if not (r == model[i][1]):
                    return h.fail("setdefault:wrong-value")
                model[i][2] += 1
            else:
                if not (r == v):
                    return h.fail("setdefault:default")
                bad = _store(c, model, cap, k, v, tag)
                if bad is not None:
                    return bad
    except Exception as e:  # noqa
        return h.fail(tag + ":raises-" + type(e).__name__)
    return _check(c, model, tag)


def store_then_lookup(k0: int, k1: int, k2: int, k3: int, v0: int, v1: int, v2: int, v3: int,
                      k: int, v: int, w: int) -> bool:
    """
    pre: k0 != k1 and k0 != k2 and k0 != k3
    pre: k1 != k2 and k1 != k3 and k2 != k3
    post: _
    """
    # "after c[k]=v a lookup of k returns v" observed purely through the public API
    cap = h.P["cap"]
    cnts = h.P["cnts"]
    n = len(cnts)
    ks = [k0, k1, k2, k3][:n]
    vs = [v0, v1, v2, v3][:n]
    c = _build(cap, ks, vs, cnts)
    c[k] = v
    if not (c[k] == v):
        return h.fail("store-then-lookup:stale-value")
    c[k] = w
    if not (c[k] == w):
        return h.fail("store-then-lookup:stale-value-2")
    return h.ok()


def eq_step(v0: int, v1: int, v2: int, v3: int, w: int, pos: int, same: bool) -> bool:
    """
    pre: 0 <= pos < max(1, len(h.P['cnts']))
    post: _
    """
    cap = h.P["cap"]
    cnts = h.P["cnts"]
    n = len(cnts)
    kind = h.P["kind"]
    ks = list(range(n))
    vs = [v0, v1, v2, v3][:n]
    c = _build(cap, ks, vs, cnts)
    ovs = list(vs)
    if not same and n > 0:
        ovs[pos] = w
    if kind == "dict":
        other = {}
        for i in range(n):
            other[ks[i]] = ovs[i]
    else:
        other = _build(cap, ks[::-1], ovs[::-1], [1] * n)
    got, done = _consume(c.items(), 2 * cap + 3)
    if not done:
        return h.fail("eq:items-does-not-terminate")
    if len(got) != n:
        return h.fail("eq:items-count")
    expect = True
    if not same and n > 0:
        expect = (w == vs[pos])
    r = (c == other)
    if r != expect:
        return h.fail("eq:wrong-result")
    if (c != other) == expect:
        return h.fail("ne:wrong-result")
    if len(c) != n:
        return h.fail("eq:len-after")
    return h.ok()


def _count_vectors(n, M):
    if n == 0:
        return [[]]
    out = []

    def rec(prefix, lo):
        if len(prefix) == n:
            out.append(list(prefix))
            return
        for x in range(lo, M + 1):
            rec(prefix + [x], x)

    rec([], 1)
    return out


def jobs(tier):
    T = 90 if tier == "quick" else 600
    C, M = (3, 3) if tier == "quick" else (4, 4)
    out = []
    for cap in range(1, C + 1):
        for n in range(0, cap + 1):
            for cnts in _count_vectors(n, M):
                cs = "".join(map(str, cnts)) or "-"
                for op in OPS:
                    if op == "update":
                        for m in (1, 2):
                            out.append(Job("C07", "harness.c07", "step", {"op": op, "cap": cap, "cnts": cnts, "m": m},
                                           timeout=T, name="step[%s,cap=%d,cnts=%s,m=%d]" % (op, cap, cs, m), assoc=ASSOC))
                    else:
                        out.append(Job("C07", "harness.c07", "step", {"op": op, "cap": cap, "cnts": cnts}, timeout=T,
                                       name="step[%s,cap=%d,cnts=%s]" % (op, cap, cs), assoc=ASSOC))
                out.append(Job("C07", "harness.c07", "store_then_lookup", {"cap": cap, "cnts": cnts}, timeout=T,
                               name="store_then_lookup[cap=%d,cnts=%s]" % (cap, cs), assoc=ASSOC))
                for kind in ("dict", "lfu-reversed"):
                    out.append(Job("C07", "harness.c07", "eq_step", {"cap": cap, "cnts": cnts, "kind": kind},
                                   timeout=T, name="eq[%s,cap=%d,cnts=%s]" % (kind, cap, cs), assoc=ASSOC))
    return out
