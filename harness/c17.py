"""C17 - sorted_combinations is complete, unique and key-ordered; min_combinations_in_interval_iter_sorted is exact.

n elements (fixed per job) with unbounded symbolic integer weights >= 0 (ties and zeros included), key = sum of the
weights (monotone under appending an element); the weak order of the weights is split into one job per sorting
permutation (pre: w[pi0] <= w[pi1] <= ...), which only partitions the input space.
 (a) complete   : the multiset of yielded index tuples equals itertools.combinations for r = 1..n, each ascending
 (b) ordered    : consecutive keys non-decreasing, every key equals the sum of its combination (yield_key=True), and
                  the plain form yields the same combinations in the same order
 (c) interval   : min_combinations_in_interval_iter_sorted == brute force: exactly the combinations whose sum is the
                  least sum in [lo, hi), each with that sum; [] when none
"""
import itertools

from windpyutils.generic import sorted_combinations, min_combinations_in_interval_iter_sorted

from vf import h
from vf.xh.engine import Job

META = {
    "level": "other",
    "explanation": "Bounded symbolic execution (CrossHair/z3) of the real sorted_combinations / "
                   "min_combinations_in_interval_iter_sorted code including the heapq operations on tuples with symbolic "
                   "keys: weights and interval ends are unbounded non-negative/arbitrary solver integers; completeness, "
                   "uniqueness, key order and the interval search are compared with itertools.combinations brute force.",
    "bounds": {"quick": {"n": "<=3"}, "thorough": {"n": "<=4"}},
    "outside_bounds": ["more than n elements", "keys other than the sum of non-negative integer scores (any monotone key "
                       "is allowed by the docstring; the sum is the one the interval search uses)", "negative scores"],
    "assumptions": ["CrossHair 'Confirmed over all paths' / z3 unsat are trusted"],
    "stubs": [],
    "functions": ["windpyutils/generic.py:sorted_combinations", "windpyutils/generic.py:min_combinations_in_interval_iter_sorted",
                  "heapq (heapify/heappop/heappush) executed on tuples with symbolic first components"],
}


def _weights(ws):
    n = h.P["n"]
    perm = h.P["perm"]
    ws = ws[:n]
    for a, b in zip(perm, perm[1:]):
        if not (ws[a] <= ws[b]):
            return None
    return ws


def _all_combs(n):
    out = []
    for r in range(1, n + 1):
        out.extend(itertools.combinations(range(n), r))
    return out


def complete(w0: int, w1: int, w2: int, w3: int) -> bool:
    """
    pre: w0 >= 0 and w1 >= 0 and w2 >= 0 and w3 >= 0
    post: _
    """
    ws = _weights([w0, w1, w2, w3])
    if ws is None:
        return True
    n = len(ws)
    got = []
    budget = 2 ** n + 2
    for c in sorted_combinations(list(range(n)), lambda x: sum(ws[i] for i in x)):
        got.append(c)
        if len(got) > budget:
            return h.fail("complete:too-many")
    exp = _all_combs(n)
    if len(got) != len(exp):
        return h.fail("complete:count")
    for c in got:
        if not isinstance(c, tuple):
            return h.fail("complete:not-a-tuple")
        for a, b in zip(c, c[1:]):
            if not (a < b):
                return h.fail("complete:not-index-ordered")
    if sorted(got) != sorted(exp):
        return h.fail("complete:not-each-exactly-once")
    return h.ok()


def ordered(w0: int, w1: int, w2: int, w3: int) -> bool:
    """
    pre: w0 >= 0 and w1 >= 0 and w2 >= 0 and w3 >= 0
    post: _
    """
    ws = _weights([w0, w1, w2, w3])
    if ws is None:
        return True
    n = len(ws)
    key = lambda x: sum(ws[i] for i in x)  # noqa
    got = list(sorted_combinations(list(range(n)), key, yield_key=True))
    plain = list(sorted_combinations(list(range(n)), key))
    if len(got) != 2 ** n - 1 or len(plain) != len(got):
        return h.fail("ordered:count")
    prev = None
    i = 0
    for c, k in got:
        if plain[i] != c:
            return h.fail("ordered:yield_key-changes-order")
        s = 0
        for j in c:
            s = s + ws[j]
        if not (k == s):
            return h.fail("ordered:key-is-not-the-sum")
        if prev is not None and not (prev <= k):
            return h.fail("ordered:keys-decrease")
        prev = k
        i += 1
    return h.ok()


def interval(w0: int, w1: int, w2: int, w3: int, lo: int, hi: int) -> bool:
    """
    pre: w0 >= 0 and w1 >= 0 and w2 >= 0 and w3 >= 0
    post: _
    """
    ws = _weights([w0, w1, w2, w3])
    if ws is None:
        return True
    n = len(ws)
    elements = ["e%d" % i for i in range(n)]
    res = min_combinations_in_interval_iter_sorted(elements, ws, lo, hi)
    # every reported entry is a genuine combination with its own sum, inside the interval, all sums equal
    seen = []
    best = None
    for ent in res:
        if not (isinstance(ent, tuple) and len(ent) == 2):
            return h.fail("interval:entry-shape")
        els, sc = ent
        idx = []
        for e in els:
            if e not in elements:
                return h.fail("interval:unknown-element")
            idx.append(elements.index(e))
        for a, b in zip(idx, idx[1:]):
            if not (a < b):
                return h.fail("interval:not-a-combination")
        if len(idx) == 0:
            return h.fail("interval:empty-combination")
        s = 0
        for j in idx:
            s = s + ws[j]
        if not (sc == s):
            return h.fail("interval:score-is-not-the-sum")
        if not (lo <= sc and sc < hi):
            return h.fail("interval:outside-interval")
        if best is not None and not (sc == best):
            return h.fail("interval:mixed-sums")
        best = sc
        if tuple(idx) in seen:
            return h.fail("interval:duplicate")
        seen.append(tuple(idx))
    # nothing smaller inside the interval, and every combination with the minimal sum is reported
    for c in _all_combs(n):
        s = 0
        for j in c:
            s = s + ws[j]
        if lo <= s and s < hi:
            if best is None:
                return h.fail("interval:empty-result-but-combination-in-interval")
            if s < best:
                return h.fail("interval:not-minimal")
            if s == best and c not in seen:
                return h.fail("interval:missing-minimal-combination")
    return h.ok()


def jobs(tier):
    N = 3 if tier == "quick" else 4
    out = []
    T = 3000
    for n in range(0, N + 1):
        for perm in itertools.permutations(range(n)):
            pn = "".join(map(str, perm)) or "-"
            for fn in ("complete", "ordered", "interval"):
                out.append(Job("C17", "harness.c17", fn, {"n": n, "perm": list(perm)}, timeout=T,
                               name="%s[n=%d,order=%s]" % (fn, n, pn)))
    return out
