"""Value domain of the PyBMC symbolic bytecode VM: concrete Python objects + z3 scalars + bounded containers.

Shapes are static descriptors used to (a) identify control-flow-automaton nodes and (b) flatten a thread's live
values / heap cells / queue slots into scalar state variables (bit-vectors and Booleans).
"""
import z3

import os as _os
W = int(_os.environ.get("VF_BMC_W", "6"))  # bit width of integer state variables (signed); exceeding it sets bound_exceeded


def I(v):
    return z3.BitVecVal(int(v), W)


def is_z3(v):
    return isinstance(v, z3.ExprRef)


def is_symint(v):
    return isinstance(v, z3.BitVecRef)


def is_symbool(v):
    return isinstance(v, z3.BoolRef)


def as_bv(v):
    if isinstance(v, z3.BitVecRef):
        return v
    if isinstance(v, bool):
        return I(1 if v else 0)
    if isinstance(v, int):
        return I(v)
    if isinstance(v, z3.BoolRef):
        return z3.If(v, I(1), I(0))
    raise VMError("not an integer value: %r" % (v,))


def as_bool(v):
    if isinstance(v, z3.BoolRef):
        return v
    if isinstance(v, bool):
        return z3.BoolVal(v)
    if isinstance(v, z3.BitVecRef):
        return v != I(0)
    if isinstance(v, int):
        return z3.BoolVal(v != 0)
    raise VMError("not a boolean value: %r" % (v,))


class VMError(Exception):
    """Unsupported construct / violated modelling assumption: reported as harness error (exit 2), never a verdict."""


class CInt(int):
    """An integer that is a configuration constant of the scenario (chunk size, worker count, len of a real list):
    it stays concrete in node keys instead of becoming a state variable."""

    def __repr__(self):
        return "CInt(%d)" % int(self)

    __str__ = __repr__


class Null:
    def __repr__(self):
        return "<NULL>"


NULL = Null()


class SList:
    """Bounded list with value semantics: symbolic length, `cap` slots of one element shape."""

    def __init__(self, cap, length=0, slots=None, elem=None):
        self.cap = cap
        self.length = length  # int or BitVec
        self.slots = list(slots) if slots is not None else []
        self.elem = elem  # shape of elements (None while unknown)


class SDict:
    """dict with integer keys 0..K-1: presence flags + values of one shape (Buffer._storage)."""

    def __init__(self, K, present=None, vals=None, elem=None):
        self.K = K
        self.present = list(present) if present is not None else [False] * K
        self.vals = list(vals) if vals is not None else [None] * K
        self.elem = elem


class SOpt:
    """None | payload (one payload shape)."""

    def __init__(self, is_none, payload, shape):
        self.is_none = is_none  # z3 Bool
        self.payload = payload
        self.shape = shape


class Cell:
    def __init__(self, v=NULL):
        self.v = v


class SFunction:
    def __init__(self, code, globs, defaults=(), closure=(), kwdefaults=None, qualname=None):
        self.code = code
        self.globs = globs
        self.defaults = tuple(defaults or ())
        self.closure = tuple(closure or ())
        self.kwdefaults = kwdefaults or {}
        self.qualname = qualname or code.co_qualname


class BoundMethod:
    def __init__(self, func, self_obj):
        self.func = func
        self.self_obj = self_obj


class RangeIter:
    def __init__(self, idx, stop, step=1):
        self.idx = idx
        self.stop = stop
        self.step = step


class ListIter:
    def __init__(self, lst, idx=0):
        self.lst = lst  # SList, tuple or real list (then idx stays concrete)
        self.idx = idx


class EnumIter:
    def __init__(self, inner, count=0):
        self.inner = inner
        self.count = count


class ZipIter:
    def __init__(self, inners):
        self.inners = list(inners)


class InputIter:
    """v_input(n): yields the item ids 0..n-1 (n symbolic)."""

    def __init__(self, n, idx=0):
        self.n = n
        self.idx = idx


class GenObj:
    def __init__(self, frame):
        self.frame = frame
        self.done = False


# ------------------------------------------------------------------ shapes
OBJECTS = {}  # id -> object, for every object that appeared as a constant (keeps it alive; default_of(("o", id)))


def const_key(v):
    if v is None or isinstance(v, (str, float, bytes)):
        return ("c", type(v).__name__, v)
    OBJECTS[id(v)] = v
    return ("o", id(v))


def shape_of(v, frame_shape=None):
    """Static shape of a value with all scalars generalised (ints -> 'i', bools -> 'b')."""
    if isinstance(v, bool):
        return ("c", "bool", v)  # literal flags stay concrete (part of the node key)
    if isinstance(v, CInt):
        return ("c", "CInt", int(v))
    if is_symbool(v):
        return "b"
    if isinstance(v, int) or is_symint(v):
        return "i"
    if v is NULL:
        return "N"
    if isinstance(v, tuple):
        return ("t",) + tuple(shape_of(x, frame_shape) for x in v)
    if isinstance(v, SList):
        if v.elem == "objs":
            return ("LO", tuple(const_key(x) for x in v.slots[:v.length]))
        return ("L", v.cap, v.elem)
    if isinstance(v, SDict):
        return ("D", v.K, v.elem)
    if isinstance(v, SOpt):
        return ("O", v.shape)
    if isinstance(v, Cell):
        return ("cell", shape_of(v.v, frame_shape))
    if isinstance(v, RangeIter):
        return ("range", v.step)
    if isinstance(v, ListIter):
        if isinstance(v.lst, SList) and v.lst.elem == "objs":
            return ("loiter", shape_of(v.lst, frame_shape), v.idx)
        if isinstance(v.lst, (SList, tuple)):
            return ("liter", shape_of(v.lst, frame_shape))
        return ("oliter", id(v.lst), v.idx)
    if isinstance(v, EnumIter):
        return ("enum", shape_of(v.inner, frame_shape))
    if isinstance(v, ZipIter):
        return ("zip",) + tuple(shape_of(x, frame_shape) for x in v.inners)
    if isinstance(v, InputIter):
        return ("input",)
    if isinstance(v, GenObj):
        return ("gen", v.done, frame_shape(v.frame) if (frame_shape and not v.done) else None)
    if isinstance(v, SFunction):
        return ("fn", id(v.code), tuple(shape_of(c, frame_shape) for c in v.closure))
    if isinstance(v, BoundMethod):
        return ("bm", shape_of(v.func, frame_shape), shape_of(v.self_obj, frame_shape))
    import types as _types
    if isinstance(v, BaseException):
        return ("exc", type(v).__module__, type(v).__qualname__)
    if isinstance(v, _types.MethodType):
        return ("m", id(v.__func__), shape_of(v.__self__, frame_shape))
    if isinstance(v, _types.BuiltinMethodType) and getattr(v, "__self__", None) is not None and not isinstance(v.__self__, _types.ModuleType):
        return ("bmeth", v.__name__, shape_of(v.__self__, frame_shape))
    if type(v).__name__ == "_ContainerMethod":
        return ("cm", v.name, shape_of(v.obj, frame_shape))
    return const_key(v)


def default_of(shape):
    """A value of the given shape filled with zeros (unused slots)."""
    if shape == "i":
        return 0
    if shape == "b":
        return False
    if shape is None:
        return 0
    if isinstance(shape, tuple):
        k = shape[0]
        if k == "t":
            return tuple(default_of(s) for s in shape[1:])
        if k == "L":
            return SList(shape[1], 0, [default_of(shape[2]) for _ in range(shape[1])], shape[2])
        if k == "O":
            return SOpt(z3.BoolVal(True), default_of(shape[1]), shape[1])
        if k == "D":
            return SDict(shape[1], [False] * shape[1], [default_of(shape[2]) for _ in range(shape[1])], shape[2])
        if k == "c":
            return shape[2]
        if k == "o" and shape[1] in OBJECTS:
            return OBJECTS[shape[1]]
    raise VMError("no default for shape %r" % (shape,))


def flatten(v, shape, prefix, out):
    """Append (name, sort, expr) triples for value v (conforming to shape) to out."""
    if shape == "i":
        out.append((prefix + ":i", "i", as_bv(v)))
    elif shape == "b":
        out.append((prefix + ":b", "b", as_bool(v)))
    elif shape is None or shape == "N":
        return
    elif isinstance(shape, tuple):
        k = shape[0]
        if k == "t":
            for j, s in enumerate(shape[1:]):
                flatten(v[j], s, "%s.%d" % (prefix, j), out)
        elif k == "L":
            out.append((prefix + ".len:i", "i", as_bv(v.length)))
            for j in range(shape[1]):
                if shape[2] is not None:
                    flatten(v.slots[j] if j < len(v.slots) else default_of(shape[2]), shape[2], "%s.%d" % (prefix, j), out)
        elif k == "D":
            for j in range(shape[1]):
                out.append(("%s.p%d:b" % (prefix, j), "b", as_bool(v.present[j])))
                if shape[2] is not None:
                    flatten(v.vals[j] if v.vals[j] is not None else default_of(shape[2]), shape[2], "%s.v%d" % (prefix, j), out)
        elif k == "O":
            out.append((prefix + ".none:b", "b", as_bool(v.is_none)))
            flatten(v.payload, shape[1], prefix + ".some", out)
        elif k == "cell":
            flatten(v.v, shape[1], prefix + ".cell", out)
        elif k == "range":
            out.append((prefix + ".idx:i", "i", as_bv(v.idx)))
            out.append((prefix + ".stop:i", "i", as_bv(v.stop)))
        elif k == "liter":
            flatten(v.lst, shape[1], prefix + ".lst", out)
            out.append((prefix + ".idx:i", "i", as_bv(v.idx)))
        elif k == "enum":
            flatten(v.inner, shape[1], prefix + ".in", out)
            out.append((prefix + ".cnt:i", "i", as_bv(v.count)))
        elif k == "zip":
            for j, s in enumerate(shape[1:]):
                flatten(v.inners[j], s, "%s.z%d" % (prefix, j), out)
        elif k == "input":
            out.append((prefix + ".idx:i", "i", as_bv(v.idx)))
        elif k == "fn":
            for j, s in enumerate(shape[2]):
                flatten(v.closure[j], s, "%s.cl%d" % (prefix, j), out)
        elif k == "bm":
            flatten(v.func, shape[1], prefix + ".f", out)
            flatten(v.self_obj, shape[2], prefix + ".s", out)
        elif k in ("c", "o", "oliter", "gen"):
            return  # constants carry no state; generator frames are flattened by the VM (it knows frames)
        else:
            raise VMError("cannot flatten shape %r" % (shape,))
    else:
        raise VMError("cannot flatten shape %r" % (shape,))


def var(name, sort):
    return z3.BitVec(name, W) if sort == "i" else z3.Bool(name)


def unflatten(template, shape, prefix, read):
    """Rebuild a value of `shape` whose scalars are read(name, sort); non-scalar constants come from template."""
    if shape == "i":
        return read(prefix + ":i", "i")
    if shape == "b":
        return read(prefix + ":b", "b")
    if shape is None or shape == "N":
        return template
    if isinstance(shape, tuple):
        k = shape[0]
        if k == "t":
            return tuple(unflatten(template[j], s, "%s.%d" % (prefix, j), read) for j, s in enumerate(shape[1:]))
        if k == "L":
            ln = read(prefix + ".len:i", "i")
            slots = []
            for j in range(shape[1]):
                if shape[2] is not None:
                    t = template.slots[j] if j < len(template.slots) else default_of(shape[2])
                    slots.append(unflatten(t, shape[2], "%s.%d" % (prefix, j), read))
            return SList(shape[1], ln, slots, shape[2])
        if k == "D":
            pres, vals = [], []
            for j in range(shape[1]):
                pres.append(read("%s.p%d:b" % (prefix, j), "b"))
                if shape[2] is not None:
                    t = template.vals[j] if template.vals[j] is not None else default_of(shape[2])
                    vals.append(unflatten(t, shape[2], "%s.v%d" % (prefix, j), read))
                else:
                    vals.append(None)
            return SDict(shape[1], pres, vals, shape[2])
        if k == "O":
            return SOpt(read(prefix + ".none:b", "b"), unflatten(template.payload, shape[1], prefix + ".some", read), shape[1])
        if k == "cell":
            return Cell(unflatten(template.v, shape[1], prefix + ".cell", read))
        if k == "range":
            return RangeIter(read(prefix + ".idx:i", "i"), read(prefix + ".stop:i", "i"), shape[1])
        if k == "liter":
            return ListIter(unflatten(template.lst, shape[1], prefix + ".lst", read), read(prefix + ".idx:i", "i"))
        if k == "enum":
            return EnumIter(unflatten(template.inner, shape[1], prefix + ".in", read), read(prefix + ".cnt:i", "i"))
        if k == "zip":
            return ZipIter([unflatten(template.inners[j], s, "%s.z%d" % (prefix, j), read) for j, s in enumerate(shape[1:])])
        if k == "input":
            return InputIter(template.n, read(prefix + ".idx:i", "i"))
        if k == "fn":
            return SFunction(template.code, template.globs, template.defaults,
                             [unflatten(template.closure[j], s, "%s.cl%d" % (prefix, j), read) for j, s in enumerate(shape[2])],
                             template.kwdefaults, template.qualname)
        if k == "bm":
            return BoundMethod(unflatten(template.func, shape[1], prefix + ".f", read),
                               unflatten(template.self_obj, shape[2], prefix + ".s", read))
        if k in ("c", "o", "oliter", "gen"):
            return template
    raise VMError("cannot unflatten shape %r" % (shape,))


def coerce(v, shape):
    """Convert value v to the declared shape (queue slots, heap cells)."""
    if shape == "i":
        if isinstance(v, SOpt) and not isinstance(v.payload, (tuple, SList)):
            return as_bv(v.payload)  # an Optional[int] stored where the model keeps a plain int (None-ness is not tracked there)
        return as_bv(v)
    if shape == "b":
        return as_bool(v)
    if isinstance(shape, tuple):
        k = shape[0]
        if k == "O":
            if v is None:
                return SOpt(z3.BoolVal(True), default_of(shape[1]), shape[1])
            if isinstance(v, SOpt):
                return SOpt(v.is_none, coerce(v.payload, shape[1]), shape[1])
            return SOpt(z3.BoolVal(False), coerce(v, shape[1]), shape[1])
        if k == "t":
            if not isinstance(v, tuple) or len(v) != len(shape) - 1:
                raise VMError("value %r does not fit tuple shape %r" % (v, shape))
            return tuple(coerce(x, s) for x, s in zip(v, shape[1:]))
        if k == "L":
            if isinstance(v, list):
                v = SList(len(v), len(v), list(v), None)
            if not isinstance(v, SList):
                raise VMError("value %r does not fit list shape %r" % (v, shape))
            if v.cap > shape[1] and not (isinstance(v.length, int) and v.length <= shape[1]):
                pass  # longer capacity: the runtime length is guarded by bound_exceeded in append
            slots = [coerce(v.slots[j], shape[2]) if j < len(v.slots) and shape[2] is not None else default_of(shape[2])
                     for j in range(shape[1])]
            return SList(shape[1], v.length, slots, shape[2])
        if k == "D":
            if not isinstance(v, SDict):
                raise VMError("value %r does not fit dict shape %r" % (v, shape))
            vals = []
            for j in range(shape[1]):
                x = v.vals[j] if j < len(v.vals) else None
                if shape[2] is None:
                    vals.append(None)
                else:
                    vals.append(coerce(x, shape[2]) if x is not None else default_of(shape[2]))
            pres = [v.present[j] if j < len(v.present) else False for j in range(shape[1])]
            return SDict(shape[1], pres, vals, shape[2])
        if k in ("c", "o", "input"):
            return v
    if shape is None:
        return v
    raise VMError("cannot coerce %r to %r" % (v, shape))


def ite(c, a, b):
    """If-then-else over two values of the same shape."""
    if is_z3(a) or is_z3(b) or isinstance(a, (bool, int)) and not isinstance(b, (SList, tuple)):
        if isinstance(a, (bool, z3.BoolRef)) and isinstance(b, (bool, z3.BoolRef)):
            return z3.If(c, as_bool(a), as_bool(b))
        if isinstance(a, (int, z3.BitVecRef)) and isinstance(b, (int, z3.BitVecRef)):
            return z3.If(c, as_bv(a), as_bv(b))
    if isinstance(a, tuple) and isinstance(b, tuple) and len(a) == len(b):
        return tuple(ite(c, x, y) for x, y in zip(a, b))
    if isinstance(a, SList) and isinstance(b, SList):
        n = max(len(a.slots), len(b.slots))
        elem = a.elem if a.elem is not None else b.elem
        sa = a.slots + [default_of(elem)] * (n - len(a.slots))
        sb = b.slots + [default_of(elem)] * (n - len(b.slots))
        return SList(max(a.cap, b.cap), z3.If(c, as_bv(a.length), as_bv(b.length)), [ite(c, x, y) for x, y in zip(sa, sb)], elem)
    if isinstance(a, SOpt) and isinstance(b, SOpt):
        return SOpt(z3.If(c, a.is_none, b.is_none), ite(c, a.payload, b.payload), a.shape)
    if a is b or (not is_z3(a) and not is_z3(b) and type(a) is type(b) and a == b):
        return a
    raise VMError("ite over incompatible values %r / %r" % (a, b))
