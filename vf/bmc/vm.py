"""PyBMC front end: a symbolic interpreter for CPython 3.12 bytecode that extracts, per thread of control, a
control-flow automaton (CFA) whose edges are large blocks: ONE visible operation (primitive call or access to a
variable shared between threads) followed by the thread-local code up to the next visible operation.

The bytecode comes from the functions of /repo as loaded for this run (compiled from the current source by the import
hook), so the encoding is regenerated from the working tree on every run. Control flow, exceptions (exception tables),
`with`, generators, `yield from`, closures and comprehensions are therefore CPython's own translation of the source.

State = scalar variables (bit-vectors / Booleans): flattened thread-local values at cut points, heap cells that the
encoded code assigns, primitive objects (queues, events, locks, thread status). Everything else (objects, classes,
constants, attributes never assigned by encoded code) is concrete and read from the real object graph that the real
constructors built (partial evaluation).
"""
import dis
import math
import queue as _queue
import sys
import threading
import mmap as _mmap
import multiprocessing as _mp
import types
import multiprocessing.process as _mpp

import z3

from vf.bmc.values import (CInt, W, I, is_z3, is_symint, is_symbool, as_bv, as_bool, VMError, NULL, SList, SDict, SOpt, Cell,
                           SFunction, BoundMethod, RangeIter, ListIter, EnumIter, ZipIter, InputIter, GenObj, shape_of,
                           default_of, flatten, unflatten, coerce, ite, var, const_key)
from vf.bmc import prims
from vf.bmc import intrinsics as intr

_INS_CACHE = {}
import os as _os
_TRACE = bool(_os.environ.get('VM_TRACE'))


def instructions(code):
    r = _INS_CACHE.get(code)
    if r is None:
        ins = [i for i in dis.get_instructions(code)]
        off2idx = {i.offset: k for k, i in enumerate(ins)}
        table = list(dis._parse_exception_table(code))
        r = (ins, off2idx, table)
        _INS_CACHE[code] = r
    return r


_LIVE_CACHE = {}


def live_locals(code):
    """Backward liveness of fast locals per instruction index (cells and free variables are always kept)."""
    r = _LIVE_CACHE.get(code)
    if r is not None:
        return r
    ins, off2idx, table = instructions(code)
    n = len(ins)
    always = set(code.co_cellvars) | set(code.co_freevars)
    succ = [[] for _ in range(n)]
    use = [set() for _ in range(n)]
    dfn = [set() for _ in range(n)]
    for k, i in enumerate(ins):
        op = i.opname
        if op in ("LOAD_FAST", "LOAD_FAST_CHECK", "LOAD_CLOSURE", "LOAD_DEREF", "STORE_DEREF", "MAKE_CELL", "DELETE_DEREF"):
            use[k].add(i.argval)
        elif op == "LOAD_FAST_AND_CLEAR":
            use[k].add(i.argval)
        elif op in ("STORE_FAST", "DELETE_FAST"):
            dfn[k].add(i.argval)
        nxt = k + 1 if k + 1 < n else None
        if op in ("RETURN_VALUE", "RETURN_CONST", "RERAISE", "RAISE_VARARGS"):
            pass
        elif op in ("JUMP_FORWARD", "JUMP_BACKWARD", "JUMP_BACKWARD_NO_INTERRUPT"):
            succ[k].append(off2idx[i.argval])
        elif op in ("POP_JUMP_IF_FALSE", "POP_JUMP_IF_TRUE", "POP_JUMP_IF_NONE", "POP_JUMP_IF_NOT_NONE", "SEND"):
            succ[k].append(off2idx[i.argval])
            if nxt is not None:
                succ[k].append(nxt)
        elif op == "FOR_ITER":
            t = off2idx[i.argval]
            succ[k].append(t)
            if t + 1 < n:
                succ[k].append(t + 1)
            if nxt is not None:
                succ[k].append(nxt)
        elif nxt is not None:
            succ[k].append(nxt)
        for e in table:
            if e.start <= i.offset < e.end:
                succ[k].append(off2idx[e.target])
    live_in = [set() for _ in range(n)]
    changed = True
    while changed:
        changed = False
        for k in range(n - 1, -1, -1):
            out = set()
            for s2 in succ[k]:
                out |= live_in[s2]
            new = use[k] | (out - dfn[k])
            if new != live_in[k]:
                live_in[k] = new
                changed = True
    r = [li | always for li in live_in]
    _LIVE_CACHE[code] = r
    return r


def live_items(f):
    """(name, value) pairs of the locals of frame f that are live at its next instruction."""
    lv = live_locals(f.code)
    live = lv[f.ip] if f.ip < len(lv) else set()
    return [(n, v) for n, v in sorted(f.locals.items()) if n in live]


class Frame:
    def __init__(self, code, globs, name=None):
        self.code = code
        self.globs = globs
        self.ins, self.off2idx, self.table = instructions(code)
        self.ip = 0
        self.cur = 0
        self.stack = []
        self.locals = {}
        self.gen = None  # GenObj if this is a generator frame
        self.ret_override = NULL  # value to return instead (class instantiation returns the object)
        self.ctor_of = None  # object whose __init__ this frame is
        self.resumer = None  # for generator frames: ("for", None) | ("send", None) while running
        self.discard_ret = False


class CutHere(Exception):
    pass


class Alternatives(Exception):
    """The current instruction must be re-executed once per alternative; alt = (cond, prepare(ts, pst))."""

    def __init__(self, alts):
        self.alts = alts


class PathEnd(Exception):
    """thread finished on this path"""


class Infeasible(Exception):
    pass


class CellInfo:
    def __init__(self, obj, attr, name):
        self.obj = obj
        self.attr = attr
        self.name = name
        self.shape = "unset"
        self.init = NULL
        self.readers = set()
        self.writers = set()  # threads writing outside the object's constructor
        self.ctor_written = False


class ThreadInfo:
    def __init__(self, name, entry, obj=None, args=()):
        self.name = name
        self.entry = entry
        self.obj = obj
        self.args = args
        self.nodes = {}
        self.node_list = []
        self.edges = []
        self.is_process = isinstance(obj, _mpp.BaseProcess)


class Node:
    def __init__(self, nid, key, template, varlist):
        self.id = nid
        self.key = key
        self.template = template
        self.vars = varlist
        self.final = False
        self.label = ""


class Edge:
    def __init__(self, thread, src, dst, guard, updates, label, reads, writes, visible):
        self.thread = thread
        self.src = src
        self.dst = dst
        self.guard = guard
        self.updates = updates
        self.label = label
        self.reads = reads
        self.writes = writes
        self.visible = visible


class World:
    def __init__(self, inline_prefixes=("windpyutils", "harness"), default_cap=4, dict_keys=4, max_path_steps=20000):
        self.inline_prefixes = tuple(inline_prefixes)
        self.default_cap = default_cap
        self.dict_keys = dict_keys
        self.list_caps = {}
        self.max_path_steps = max_path_steps
        self.cells = {}
        self.objnames = {}
        self.keep = []
        self.threads = {}
        self.thread_order = []
        self.alloc = {}
        self.params = {}
        self.flags = {}  # global Boolean flags (assert failures, bound_exceeded): name -> description
        self.statevars = {}  # name -> (sort, init python value)
        self.prims = {}
        self.prim_access = {}
        self.reflists = {}  # id(real list mutated by encoded code) -> {"name", "list", "cands"}
        self.publication_functions = set()  # writes inside these functions happen before the target object is started
        self.fork_functions = set()  # harness functions that copy a parent's object state into a child's object BEFORE the child starts
        self.files = {}  # path -> prims.SimFile (builtin open())
        self.storage_files = None  # prims.SimStorageFiles: paths/handles are file numbers (C14)
        self.changed = False
        self.pass_no = 0
        self.thread_of_obj = {}
        self.functions_encoded = set()
        self.monitor = {}
        self.flag("bound_exceeded", "a model capacity (list cap, queue slots, spare workers, integer width) was exceeded")

    # ---- naming / registration
    def name_of(self, obj, hint=None):
        k = id(obj)
        if k not in self.objnames:
            base = hint or getattr(obj, "name", None) or type(obj).__name__
            if not isinstance(base, str):
                base = type(obj).__name__
            n = sum(1 for v in self.objnames.values() if v.split("#")[0] == base)
            self.objnames[k] = "%s#%d" % (base, n)
            self.keep.append(obj)
        return self.objnames[k]

    def flag(self, name, desc=""):
        if name not in self.flags:
            self.flags[name] = desc
            self.declare("flag." + name + ":b", "b", False)
        return "flag." + name + ":b"

    def declare(self, name, sort, init):
        if name not in self.statevars:
            self.statevars[name] = (sort, init)
            self.changed = True

    def param(self, name, lo, hi):
        if name not in self.params:
            self.params[name] = (z3.BitVec("param." + name, W), lo, hi)
        return self.params[name][0]

    def add_thread(self, name, entry, obj=None, args=()):
        if name not in self.threads:
            self.threads[name] = ThreadInfo(name, entry, obj, args)
            self.thread_order.append(name)
            self.declare("started.%s:b" % name, "b", obj is None)
            self.declare("crashed.%s:b" % name, "b", False)
            self.changed = True
            if obj is not None:
                self.thread_of_obj[id(obj)] = name
        return self.threads[name]

    def cell(self, obj, attr):
        k = (id(obj), attr)
        ci = self.cells.get(k)
        if ci is None:
            ci = CellInfo(obj, attr, "heap.%s.%s" % (self.name_of(obj), attr))
            self.cells[k] = ci
            self.keep.append(obj)
        return ci

    def is_inline(self, func):
        mod = getattr(func, "__module__", None) or ""
        return any(mod == p or mod.startswith(p + ".") for p in self.inline_prefixes)


# =====================================================================================================================
class PathState:
    """Functional store of one explored path: values of state variables as terms over the pre-state of the edge."""

    def __init__(self, world, thread):
        self.world = world
        self.thread = thread
        self.store = {}
        self.cond = []
        self.did_visible = False
        self.labels = []
        self.reads = set()
        self.steps = 0
        self.refchoice = {}

    def clone(self):
        p = PathState(self.world, self.thread)
        p.store = dict(self.store)
        p.cond = list(self.cond)
        p.did_visible = self.did_visible
        p.labels = list(self.labels)
        p.reads = set(self.reads)
        p.steps = self.steps
        p.refchoice = dict(self.refchoice)
        return p

    def read(self, name, sort):
        if name in self.store:
            return self.store[name]
        if name not in self.world.statevars and not name.startswith("done."):
            self.world.declare(name, sort, 0 if sort == "i" else False)
        self.reads.add(name)
        return var(name, sort)

    def write(self, name, sort, expr):
        if name not in self.world.statevars:
            self.world.declare(name, sort, 0 if sort == "i" else False)
        self.store[name] = as_bv(expr) if sort == "i" else as_bool(expr)

    def set_flag(self, flagname, cond=True):
        n = self.world.flag(flagname)
        cur = self.read(n, "b")
        self.write(n, "b", z3.Or(cur, as_bool(cond)))


class TState:
    def __init__(self):
        self.frames = []


def clone_value(v, memo):
    k = id(v)
    if k in memo:
        return memo[k]
    if isinstance(v, tuple):
        r = tuple(clone_value(x, memo) for x in v)
    elif isinstance(v, SList):
        r = SList(v.cap, v.length, [clone_value(x, memo) for x in v.slots], v.elem)
        if hasattr(v, "_origin"):
            r._origin = v._origin
    elif isinstance(v, SDict):
        r = SDict(v.K, list(v.present), [clone_value(x, memo) for x in v.vals], v.elem)
        if hasattr(v, "_origin"):
            r._origin = v._origin
    elif isinstance(v, SOpt):
        r = SOpt(v.is_none, clone_value(v.payload, memo), v.shape)
    elif isinstance(v, Cell):
        r = Cell()
        memo[k] = r
        r.v = clone_value(v.v, memo)
        return r
    elif isinstance(v, RangeIter):
        r = RangeIter(v.idx, v.stop, v.step)
    elif isinstance(v, ListIter):
        r = ListIter(clone_value(v.lst, memo) if isinstance(v.lst, (SList, tuple)) else v.lst, v.idx)
    elif isinstance(v, EnumIter):
        r = EnumIter(clone_value(v.inner, memo), v.count)
    elif isinstance(v, ZipIter):
        r = ZipIter([clone_value(x, memo) for x in v.inners])
    elif isinstance(v, InputIter):
        r = InputIter(v.n, v.idx)
    elif isinstance(v, GenObj):
        r = GenObj(None)
        memo[k] = r
        r.done = v.done
        r.frame = clone_frame(v.frame, memo) if v.frame is not None else None
        return r
    elif isinstance(v, SFunction):
        r = SFunction(v.code, v.globs, v.defaults, [clone_value(c, memo) for c in v.closure], v.kwdefaults, v.qualname)
    elif isinstance(v, BoundMethod):
        r = BoundMethod(clone_value(v.func, memo), clone_value(v.self_obj, memo))
    else:
        return v
    memo[k] = r
    return r


def clone_frame(f, memo):
    k = id(f)
    if k in memo:
        return memo[k]
    n = Frame.__new__(Frame)
    memo[k] = n
    n.code, n.globs, n.ins, n.off2idx, n.table = f.code, f.globs, f.ins, f.off2idx, f.table
    n.ip, n.cur = f.ip, f.cur
    n.stack = [clone_value(x, memo) for x in f.stack]
    n.locals = {a: clone_value(b, memo) for a, b in f.locals.items()}
    n.gen = clone_value(f.gen, memo) if f.gen is not None else None
    n.ret_override = f.ret_override
    n.ctor_of = f.ctor_of
    n.resumer = f.resumer
    n.discard_ret = f.discard_ret
    n._kwnames = getattr(f, "_kwnames", ())
    return n


def clone_tstate(ts):
    memo = {}
    n = TState()
    n.frames = [clone_frame(f, memo) for f in ts.frames]
    return n


# =====================================================================================================================
class Explorer:
    def __init__(self, world):
        self.w = world
        self.solver = z3.Solver()
        for (c, lo, hi) in world.params.values():
            self.solver.add(c >= lo, c <= hi)

    # ------------------------------------------------------------------ node keys / generalisation
    def frame_shape(self, f, on_stack_ids=()):
        return (id(f.code), f.ip,
                tuple((n, self.vshape(v)) for n, v in live_items(f)),
                tuple(self.vshape(v) for v in f.stack),
                id(f.ctor_of) if f.ctor_of is not None else 0, f.discard_ret,
                const_key(f.ret_override) if f.ret_override is not NULL else 0, f.resumer)

    def vshape(self, v):
        return shape_of(v, lambda fr: ("onstack",) if id(fr) in self._onstack else self.frame_shape(fr))

    def node_key(self, ts):
        self._onstack = {id(f) for f in ts.frames}
        return tuple(self.frame_shape(f) for f in ts.frames)

    def generalise(self, ts, tname):
        """Returns (template tstate, [(name, sort, expr)]): every scalar of the thread state becomes a state variable."""
        out = []
        memo = {}
        stack_ids = {id(f) for f in ts.frames}

        def gv(v, prefix):
            k = id(v)
            if isinstance(v, (GenObj, Cell)) and k in memo:
                return memo[k]
            if isinstance(v, (bool, CInt)):
                return v
            if is_symbool(v):
                out.append((prefix + ":b", "b", as_bool(v)))
                return var(prefix + ":b", "b")
            if isinstance(v, int) or is_symint(v):
                out.append((prefix + ":i", "i", as_bv(v)))
                return var(prefix + ":i", "i")
            if isinstance(v, tuple):
                return tuple(gv(x, "%s.%d" % (prefix, j)) for j, x in enumerate(v))
            if isinstance(v, SList):
                if v.elem == "objs":
                    return SList(v.cap, v.length, list(v.slots), "objs")  # concrete list of distinct objects
                if v.elem is None:
                    return SList(v.cap, 0, [], None)  # never appended to on any path with this shape: length is 0
                ln = gv(v.length, prefix + ".len")
                return SList(v.cap, ln, [gv(x, "%s.%d" % (prefix, j)) for j, x in enumerate(v.slots)], v.elem)
            if isinstance(v, SDict):
                return SDict(v.K, [gv(as_bool(p), "%s.p%d" % (prefix, j)) for j, p in enumerate(v.present)],
                             [gv(x, "%s.v%d" % (prefix, j)) if x is not None else None for j, x in enumerate(v.vals)], v.elem)
            if isinstance(v, SOpt):
                return SOpt(gv(v.is_none, prefix + ".none"), gv(v.payload, prefix + ".some"), v.shape)
            if isinstance(v, Cell):
                c = Cell()
                memo[k] = c
                c.v = gv(v.v, prefix + ".cell")
                return c
            if isinstance(v, RangeIter):
                return RangeIter(gv(v.idx, prefix + ".idx"), gv(v.stop, prefix + ".stop"), v.step)
            if isinstance(v, ListIter):
                if isinstance(v.lst, SList) and v.lst.elem == "objs":
                    return ListIter(gv(v.lst, prefix + ".lst"), v.idx)
                if isinstance(v.lst, (SList, tuple)):
                    return ListIter(gv(v.lst, prefix + ".lst"), gv(v.idx, prefix + ".idx"))
                return ListIter(v.lst, v.idx)
            if isinstance(v, EnumIter):
                return EnumIter(gv(v.inner, prefix + ".in"), gv(v.count, prefix + ".cnt"))
            if isinstance(v, ZipIter):
                return ZipIter([gv(x, "%s.z%d" % (prefix, j)) for j, x in enumerate(v.inners)])
            if isinstance(v, InputIter):
                return InputIter(v.n, gv(v.idx, prefix + ".idx"))
            if isinstance(v, GenObj):
                g = GenObj(None)
                memo[k] = g
                g.done = v.done
                if v.frame is not None:
                    if id(v.frame) in stack_ids:
                        g.frame = ("onstack", id(v.frame))
                    else:
                        g.frame = gf(v.frame, prefix + ".g")
                return g
            if isinstance(v, SFunction):
                return SFunction(v.code, v.globs, v.defaults, [gv(c, "%s.cl%d" % (prefix, j)) for j, c in enumerate(v.closure)],
                                 v.kwdefaults, v.qualname)
            if isinstance(v, BoundMethod):
                return BoundMethod(gv(v.func, prefix + ".f"), gv(v.self_obj, prefix + ".s"))
            return v

        fmemo = {}

        def gf(f, prefix):
            if id(f) in fmemo:
                return fmemo[id(f)]
            n = Frame.__new__(Frame)
            fmemo[id(f)] = n
            n.code, n.globs, n.ins, n.off2idx, n.table = f.code, f.globs, f.ins, f.off2idx, f.table
            n.ip, n.cur = f.ip, f.cur
            n.ret_override, n.ctor_of, n.resumer, n.discard_ret = f.ret_override, f.ctor_of, f.resumer, f.discard_ret
            n._kwnames = getattr(f, "_kwnames", ())
            n.locals = {a: gv(b, "%s.%s" % (prefix, a)) for a, b in live_items(f)}
            n.stack = [gv(x, "%s.s%d" % (prefix, j)) for j, x in enumerate(f.stack)]
            n.gen = gv(f.gen, prefix + ".self") if f.gen is not None else None
            return n

        t = TState()
        t.frames = [gf(f, "%s.f%d" % (tname, d)) for d, f in enumerate(ts.frames)]
        # resolve generator objects whose frame is on the call stack
        for g in [m for m in memo.values() if isinstance(m, GenObj)]:
            if isinstance(g.frame, tuple) and g.frame and g.frame[0] == "onstack":
                g.frame = fmemo[g.frame[1]]
        return t, out

    # ------------------------------------------------------------------ exploration of one thread
    def explore_thread(self, th):
        w = self.w
        th.nodes, th.node_list, th.edges = {}, [], []
        ts = TState()
        entry = th.entry
        f = self.make_call_frame(entry, list(th.args), {}, None)
        if f is None:
            raise VMError("thread entry %r is not an inlinable function" % (entry,))
        ts.frames.append(f)
        init = self.get_node(th, ts, "start")
        work = [init]
        seen = {init.id}
        while work:
            node = work.pop()
            for (ts2, pst, kind) in self.run_from(th, node):
                if kind == "end":
                    dst = self.final_node(th)
                    updates = dict(pst.store)
                else:
                    dst, upd = self.get_node_with_updates(th, ts2)
                    updates = dict(pst.store)
                    updates.update(upd)
                    if dst.id not in seen:
                        seen.add(dst.id)
                        work.append(dst)
                guard = z3.simplify(z3.And(pst.cond)) if pst.cond else z3.BoolVal(True)
                if z3.is_false(guard):
                    continue
                upd2 = {}
                for name, e in updates.items():
                    e = z3.simplify(e)
                    sort = "i" if name.endswith(":i") else "b"
                    if e.eq(var(name, sort)):
                        continue
                    upd2[name] = e
                reads = set(pst.reads)
                for e in list(upd2.values()) + [guard]:
                    reads |= {str(c) for c in _consts(e)}
                th.edges.append(Edge(th.name, node.id, dst.id, guard, upd2, "; ".join(pst.labels) or "local", reads,
                                     set(upd2.keys()), pst.did_visible))
                if len(th.edges) > 20000:
                    raise VMError("CFA of thread %s exceeds 20000 edges" % th.name)
        th.raw_edges = len(th.edges)
        th.edges = merge_parallel_edges(th.edges)
        return th

    def final_node(self, th):
        if "FINAL" not in th.nodes:
            n = Node(len(th.node_list), "FINAL", None, [])
            n.final = True
            n.label = "end"
            th.nodes["FINAL"] = n
            th.node_list.append(n)
        return th.nodes["FINAL"]

    def get_node(self, th, ts, label=""):
        n, _ = self.get_node_with_updates(th, ts, label)
        return n

    def get_node_with_updates(self, th, ts, label=""):
        key = self.node_key(ts)
        template, out = self.generalise(ts, th.name)
        upd = {}
        for name, sort, e in out:
            self.w.declare(name, sort, 0 if sort == "i" else False)
            upd[name] = e
        n = th.nodes.get(key)
        if n is None:
            n = Node(len(th.node_list), key, template, [(a, b) for a, b, _ in out])
            f = ts.frames[-1]
            ins = f.ins[f.ip] if f.ip < len(f.ins) else None
            n.label = label or "%s@%s:%s" % (f.code.co_qualname, ins.positions.lineno if ins and ins.positions else "?", ins.opname if ins else "")
            th.nodes[key] = n
            th.node_list.append(n)
            if _os.environ.get("VM_NODES") and len(th.node_list) % 100 == 0:
                import collections
                print("NODES", th.name, len(th.node_list), collections.Counter(x.label for x in th.node_list).most_common(4), flush=True)
            if len(th.node_list) > 3000:
                if _TRACE:
                    import collections
                    cnt = collections.Counter(x.label for x in th.node_list)
                    print("NODE LABELS", cnt.most_common(6))
                    lab = cnt.most_common(1)[0][0]
                    same = [x for x in th.node_list if x.label == lab][:3]
                    for x in same:
                        print("KEY", repr(x.key)[:3000])
                raise VMError("CFA of thread %s exceeds 3000 nodes" % th.name)
        return n, upd

    def run_from(self, th, node):
        """Explore all paths from a node up to the next cut point. Yields (tstate, pathstate, 'cut'|'end')."""
        ts0 = clone_tstate(node.template)
        pst0 = PathState(self.w, th.name)
        if node.label == "start" and th.obj is not None:
            pst0.cond.append(pst0.read("started.%s:b" % th.name, "b"))
        pending = [(ts0, pst0)]
        results = []
        while pending:
            ts, pst = pending.pop()
            if getattr(ts, "ended_in_branch", False):
                results.append((ts, pst, "end"))
                continue
            try:
                while True:
                    forks = self.step(ts, pst, th)
                    if forks:
                        for (c, ts_f, pst_f) in forks:
                            if self.feasible(pst_f.cond + [c]):
                                pst_f.cond.append(c)
                                pending.append((ts_f, pst_f))
                        break
            except CutHere:
                results.append((ts, pst, "cut"))
            except PathEnd:
                results.append((ts, pst, "end"))
            except Infeasible:
                pass
        return results

    def feasible(self, conds):
        self.solver.push()
        try:
            self.solver.add(*[c for c in conds])
            return self.solver.check() != z3.unsat
        finally:
            self.solver.pop()

    # ------------------------------------------------------------------ helpers used by instructions
    def branch(self, ts, pst, cond, on_true, on_false):
        """cond: python bool or z3 Bool. on_true/on_false mutate (ts, pst). Returns forks list or None."""
        if isinstance(cond, bool):
            (on_true if cond else on_false)(ts, pst)
            return None
        cond = z3.simplify(cond)
        if z3.is_true(cond):
            on_true(ts, pst)
            return None
        if z3.is_false(cond):
            on_false(ts, pst)
            return None
        forks = []
        for c, fn in ((cond, on_true), (z3.Not(cond), on_false)):
            ts2, pst2 = clone_tstate(ts), pst.clone()
            try:
                fn(ts2, pst2)
            except PathEnd:
                ts2.ended_in_branch = True  # e.g. an exception raised by this alternative is not caught anywhere
            forks.append((c, ts2, pst2))
        return forks

    def truth(self, v):
        """python bool or z3 Bool for the truthiness of v"""
        if isinstance(v, bool):
            return v
        if is_symbool(v):
            return v
        if is_symint(v):
            return v != I(0)
        if isinstance(v, SList):
            return as_bv(v.length) != I(0) if is_z3(v.length) else v.length != 0
        if isinstance(v, SOpt):
            return z3.Not(v.is_none)
        if isinstance(v, SDict):
            return z3.Or([as_bool(p) for p in v.present])
        if v is None:
            return False
        if isinstance(v, (int, float, str, tuple, list, dict)):
            return bool(v)
        return True

    def cap_for(self, f, pst=None):
        nxt = f.ins[f.ip] if f.ip < len(f.ins) else None
        name = nxt.argval if nxt is not None and nxt.opname in ("STORE_FAST", "STORE_DEREF") else None
        return self.w.list_caps.get((f.code.co_name, name), self.w.list_caps.get(name, self.w.default_cap))

    # ------------------------------------------------------------------ calls
    def make_call_frame(self, func, args, kwargs, caller):
        """Returns a new Frame for a Python-level function, or None if func is not interpretable."""
        self_obj = NULL
        if isinstance(func, BoundMethod):
            self_obj, func = func.self_obj, func.func
        elif isinstance(func, types.MethodType):
            self_obj, func = func.__self__, func.__func__
        if isinstance(func, SFunction):
            code, globs, defaults, kwdefaults = func.code, func.globs, func.defaults, func.kwdefaults
            closure = list(func.closure)
        elif isinstance(func, types.FunctionType):
            if not self.w.is_inline(func):
                return None
            code, globs, defaults, kwdefaults = func.__code__, func.__globals__, func.__defaults__ or (), func.__kwdefaults__ or {}
            closure = [Cell(c.cell_contents) for c in (func.__closure__ or ())]
        else:
            return None
        self.w.functions_encoded.add("%s:%s" % (code.co_filename, code.co_qualname))
        if self_obj is not NULL:
            args = [self_obj] + list(args)
        f = Frame(code, globs)
        names = code.co_varnames
        argc = code.co_argcount
        if len(args) > argc:
            if code.co_flags & 0x04:
                f.locals[names[argc + code.co_kwonlyargcount]] = tuple(args[argc:])
                args = args[:argc]
            else:
                raise VMError("too many arguments for %s" % code.co_qualname)
        elif code.co_flags & 0x04:
            f.locals[names[argc + code.co_kwonlyargcount]] = ()
        for k, a in enumerate(args):
            f.locals[names[k]] = a
        for k in range(len(args), argc):
            n = names[k]
            if n in kwargs:
                f.locals[n] = kwargs.pop(n)
            else:
                d = k - (argc - len(defaults))
                if d < 0:
                    raise VMError("missing argument %s for %s" % (n, code.co_qualname))
                f.locals[n] = defaults[d]
        for n in names[argc:argc + code.co_kwonlyargcount]:
            f.locals[n] = kwargs.pop(n) if n in kwargs else kwdefaults[n]
        if kwargs:
            if code.co_flags & 0x08:
                raise VMError("**kwargs not supported (%s)" % code.co_qualname)
            raise VMError("unexpected keyword arguments %r for %s" % (list(kwargs), code.co_qualname))
        f._closure = closure
        for n, c in zip(code.co_freevars, closure):
            f.locals[n] = c
        return f

    def push_call(self, ts, pst, func, args, kwargs, th):
        """Perform a call from the top frame; the result will be pushed on the caller's stack."""
        caller = ts.frames[-1]
        # ---- intrinsics of the harness
        if getattr(func, "_vf_intrinsic", None):
            return intr.dispatch(self, ts, pst, th, func._vf_intrinsic, args, kwargs)
        # ---- classes
        if isinstance(func, type):
            return self.instantiate(ts, pst, func, args, kwargs, th)
        # ---- primitives
        tgt = func
        if isinstance(tgt, BoundMethod) and isinstance(tgt.func, _HandleMethod):
            if tgt.func.name == "identity":
                caller.stack.append(tgt.self_obj)
                return None
            return self.storage_file_op(ts, pst, th, tgt.func.name, tgt.self_obj, args, kwargs)
        if isinstance(tgt, (types.MethodType, BoundMethod)):
            so = tgt.__self__ if isinstance(tgt, types.MethodType) else tgt.self_obj
            fn = tgt.__func__ if isinstance(tgt, types.MethodType) else tgt.func
            fname = getattr(fn, "__name__", None) or getattr(fn, "qualname", "")
            if isinstance(so, prims.SimObj) or (isinstance(so, (threading.Thread, _mpp.BaseProcess)) and
                                                fname in ("start", "join", "is_alive") and not self.w.is_inline(fn)):
                return self.prim_call(ts, pst, th, so, fname, args, kwargs)
            if isinstance(so, (SList, SDict, list, tuple)) and not isinstance(fn, (types.FunctionType, SFunction)):
                return self.container_method(ts, pst, so, fname, args)
        if isinstance(tgt, types.BuiltinMethodType) and isinstance(getattr(tgt, "__self__", None), (SList,)):
            return self.container_method(ts, pst, tgt.__self__, tgt.__name__, args)
        if isinstance(tgt, _ContainerMethod):
            return self.container_method(ts, pst, tgt.obj, tgt.name, args)
        if isinstance(tgt, _LineIdent):
            caller.stack.append(tgt.v)
            return None
        if isinstance(tgt, _HandleMethod):
            return self.storage_file_op(ts, pst, th, tgt.name, tgt.v, args, kwargs)
        # ---- python-level functions: inline
        f = self.make_call_frame(func, list(args), dict(kwargs), caller)
        if f is not None:
            if f.code.co_flags & 0x20:  # generator function
                g = GenObj(f)
                f.gen = g
                caller.stack.append(g)
                return None
            ts.frames.append(f)
            return None
        # ---- callable instances of repository / harness classes
        if not isinstance(func, (types.FunctionType, types.BuiltinFunctionType, types.MethodType, type)) and not is_z3(func):
            cm = getattr(type(func), "__call__", None)
            if isinstance(cm, types.FunctionType) and self.w.is_inline(cm):
                return self.push_call(ts, pst, types.MethodType(cm, func), args, kwargs, th)
        # ---- builtins / library
        return self.builtin_call(ts, pst, th, func, args, kwargs)

    def instantiate(self, ts, pst, cls, args, kwargs, th):
        caller = ts.frames[-1]
        if issubclass(cls, BaseException):
            cargs = [a if not is_z3(a) else "<sym>" for a in args]
            caller.stack.append(cls(*cargs))
            return None
        if cls is threading.Event:
            caller.stack.append(self.alloc_site(ts, th, lambda: prims.SimEvent(False)))
            return None
        if cls is _mmap.mmap:
            fobj = args[0]
            if not isinstance(fobj, prims.SimFile):
                raise VMError("mmap of something that is not a modelled file")
            return self.file_op(ts, pst, th, fobj.mm, "mmap", args, kwargs)
        if cls in (list, tuple):
            return self.builtin_call(ts, pst, th, cls, args, kwargs)
        if cls in (int, str, float, bool, range, enumerate, zip):
            return self.builtin_call(ts, pst, th, cls, args, kwargs)
        mod = getattr(cls, "__module__", "") or ""
        if not any(mod == p or mod.startswith(p + ".") for p in self.w.inline_prefixes):
            raise VMError("instantiation of %s.%s is not modelled" % (mod, cls.__name__))
        obj = self.alloc_site(ts, th, lambda: object.__new__(cls))
        self.w.name_of(obj, cls.__name__)
        init = cls.__init__
        if init is object.__init__:
            caller.stack.append(obj)
            return None
        f = self.make_call_frame(init, [obj] + list(args), dict(kwargs), caller)
        if f is None:
            raise VMError("%s.__init__ is not interpretable" % cls.__name__)
        f.ret_override = obj
        f.ctor_of = obj
        ts.frames.append(f)
        return None

    def alloc_site(self, ts, th, make):
        iters = []
        for f in ts.frames:
            for v in f.stack:
                if isinstance(v, RangeIter) and isinstance(v.idx, int):
                    iters.append(int(v.idx))
                elif isinstance(v, ListIter) and isinstance(v.idx, int):
                    iters.append(int(v.idx))
        key = (th.name,) + tuple((id(f.code), f.cur) for f in ts.frames) + ("it",) + tuple(iters)
        if key not in self.w.alloc:
            self.w.alloc[key] = make()
            self.w.keep.append(self.w.alloc[key])
            self.w.changed = True
        return self.w.alloc[key]

    def in_ctor_of(self, ts, obj):
        return any(f.ctor_of is obj for f in ts.frames)

    # ------------------------------------------------------------------ heap
    def load_attr(self, ts, pst, th, obj, name):
        w = self.w
        if isinstance(obj, SOpt) and isinstance(obj.payload, prims.SimObj):
            pst.set_flag("attributeerror-None-has-no-attribute", obj.is_none)
            obj = obj.payload
        if isinstance(obj, SOpt) and is_symint(obj.payload) and w.storage_files is not None:
            pst.set_flag("attributeerror-None-has-no-attribute", obj.is_none)
            obj = obj.payload
        if isinstance(obj, SOpt):
            raise VMError("attribute %s of an optional value" % name)
        if is_symint(obj) and name in ("tell", "seek", "readline", "close", "flush") and w.storage_files is not None:
            return BoundMethod(_HANDLE_FUNCS[name], obj)
        if is_symint(obj) and name in ("rstrip", "decode"):
            return BoundMethod(_LINE_IDENT, obj)  # a line is represented by its id: decoding / stripping the newline keep the id
        if isinstance(obj, (SList, SDict)):
            return _ContainerMethod(obj, name)
        if isinstance(obj, prims.SimObj):
            if isinstance(obj, prims.SimValue) and name == "value":
                self.visible(ts, pst, "%s.value read" % obj.name)
                return pst.read("%s.value:i" % obj.name, "i")
            return getattr(obj, name)
        if isinstance(obj, (threading.Thread, _mpp.BaseProcess)) and name in ("exitcode",):
            tn = w.thread_of_obj.get(id(obj))
            if tn is None:
                return None
            self.visible(ts, pst, "%s.exitcode" % tn)
            done = pst.read("done.%s:b" % tn, "b")
            return SOpt(z3.Not(done), 0, "i")
        if isinstance(obj, (types.ModuleType, type)) or not hasattr(obj, "__dict__"):
            return getattr(obj, name)
        k = (id(obj), name)
        ci = w.cells.get(k)
        if ci is not None and ci.shape != "unset":
            if th.name not in ci.readers:
                ci.readers.add(th.name)
                w.changed = True
            shared = self.cell_shared(ci, th.name)
            if shared:
                self.visible(ts, pst, "read %s" % ci.name)
            v = self.read_cell(pst, ci)
            if isinstance(v, (SList, SDict)):
                v._origin = (obj, name)  # a mutation of this value is written back to the cell
            return v
        try:
            v = getattr(obj, name)
        except AttributeError:
            if ci is not None:
                return self.read_cell(pst, ci)
            raise
        if isinstance(v, types.MethodType) and v.__self__ is obj:
            return v
        return v

    def cell_shared(self, ci, tname):
        others_w = ci.writers - {tname}
        others_r = ci.readers - {tname}
        if others_w:
            return True
        if tname in ci.writers and others_r:
            return True
        return False

    def read_cell(self, pst, ci):
        if isinstance(ci.shape, tuple) and ci.shape and ci.shape[0] in ("c", "o"):
            return ci.init
        if ci.shape == "unset":
            raise VMError("read of heap cell %s before any write" % ci.name)
        return unflatten(ci.init, ci.shape, ci.name, pst.read)

    def store_attr(self, ts, pst, th, obj, name, value):
        w = self.w
        if isinstance(obj, prims.SimValue) and name == "value":
            self.visible(ts, pst, "%s.value write" % obj.name)
            pst.write("%s.value:i" % obj.name, "i", as_bv(value))
            return
        if isinstance(obj, (prims.SimObj, types.ModuleType, type)) or not hasattr(obj, "__dict__"):
            raise VMError("store to attribute %s of %r is not modelled" % (name, obj))
        ci = w.cell(obj, name)
        ctor = self.in_ctor_of(ts, obj) or (bool(w.publication_functions) and
                                            isinstance(obj, (threading.Thread, _mpp.BaseProcess)) and
                                            any(fr.code.co_name in w.publication_functions for fr in ts.frames)) or (
            bool(w.fork_functions) and any(fr.code.co_name in w.fork_functions for fr in ts.frames))
        if ctor:
            ci.ctor_written = True
        elif th.name not in ci.writers:
            ci.writers.add(th.name)
            w.changed = True
        sh = shape_of(value)
        if isinstance(value, GenObj) or (isinstance(sh, tuple) and sh and sh[0] in ("gen", "fn", "bm")):
            raise VMError("storing generator/function objects in attributes is not modelled (%s)" % ci.name)
        new_shape = join_shape(ci.shape, sh)
        if ci.shape == "unset" and obj.__dict__.get(name, NULL) is None and sh != ("c", "NoneType", None) and (
                w.storage_files is not None or w.files):
            # (process / file worlds only: the pool models were built and validated with the earlier rule, where such a cell
            # takes the shape of the first value stored by encoded code)
            # the attribute is None on the real object when the encoded code starts: the cell is Optional from the start
            new_shape = join_shape(("c", "NoneType", None), sh)
        if new_shape != ci.shape:
            ci.shape = new_shape
            w.changed = True
            if ci.init is NULL or True:
                try:
                    real = obj.__dict__.get(name, NULL)
                except Exception:
                    real = NULL
                if isinstance(new_shape, tuple) and new_shape[0] in ("c", "o"):
                    ci.init = value
                else:
                    if real is not NULL and _coercible(real, new_shape):
                        ci.init = coerce(real, new_shape)
                    else:
                        try:
                            ci.init = default_of(new_shape)
                        except VMError:
                            ci.init = clone_value(coerce(value, new_shape), {})  # template only (e.g. an input iterator)
        if not getattr(ci, "_declared_for", None) == ci.shape and not (isinstance(ci.shape, tuple) and ci.shape[0] in ("c", "o")):
            # the state variables of the cell start with the values the real object had after construction
            ci._declared_for = ci.shape
            try:
                out0 = []
                flatten(ci.init, ci.shape, ci.name, out0)
                for n0, s0, e0 in out0:
                    e0 = z3.simplify(e0)
                    if z3.is_bv_value(e0):
                        w.statevars[n0] = (s0, e0.as_signed_long())
                    elif z3.is_true(e0) or z3.is_false(e0):
                        w.statevars[n0] = (s0, z3.is_true(e0))
                    elif n0 not in w.statevars:
                        w.statevars[n0] = (s0, 0 if s0 == "i" else False)
            except VMError:
                pass
        if not ctor and self.cell_shared(ci, th.name):
            self.visible(ts, pst, "write %s" % ci.name)
        if isinstance(ci.shape, tuple) and ci.shape[0] in ("c", "o"):
            return
        out = []
        flatten(coerce(value, ci.shape), ci.shape, ci.name, out)
        for n, s, e in out:
            pst.write(n, s, e)

    # ---- real Python lists of objects that encoded code mutates (pool.procs): one state variable per slot, holding an
    # index into the table of candidate objects; a read forks on the candidates (Alternatives) and is cached per path
    def reflist_info(self, lst):
        return self.w.reflists.get(id(lst))

    def read_reflist(self, ts, pst, lst, idx):
        info = self.w.reflists[id(lst)]
        key = (id(lst), idx)
        shared = len(info["threads"]) > 1
        if pst.thread not in info["threads"]:
            info["threads"].add(pst.thread)
            self.w.changed = True
        if key in pst.refchoice:
            return info["cands"][pst.refchoice[key]]
        if shared:
            self.visible(ts, pst, "read %s[%d]" % (info["name"], idx))
        name = "rlist.%s.%d:i" % (info["name"], idx)
        v = pst.read(name, "i")
        alts = []
        for k in range(len(info["cands"])):
            def prep(t, p, k=k):
                p.refchoice[key] = k
            alts.append((v == I(k), prep))
        raise Alternatives(alts)

    def write_reflist(self, ts, pst, th, lst, idx, obj):
        w = self.w
        info = w.reflists.get(id(lst))
        if info is None:
            info = {"name": "list%d" % len(w.reflists), "list": lst, "cands": list(lst), "threads": set()}
            w.reflists[id(lst)] = info
            w.keep.append(lst)
            for j, o in enumerate(lst):
                w.statevars["rlist.%s.%d:i" % (info["name"], j)] = ("i", j)
            w.changed = True
        if not any(o is obj for o in info["cands"]):
            info["cands"].append(obj)
            w.changed = True
        if th.name not in info["threads"]:
            info["threads"].add(th.name)
            w.changed = True
        k = [j for j, o in enumerate(info["cands"]) if o is obj][0]
        if len(info["threads"]) > 1:
            self.visible(ts, pst, "write %s[%d]" % (info["name"], idx))
        pst.write("rlist.%s.%d:i" % (info["name"], idx), "i", I(k))
        pst.refchoice[(id(lst), idx)] = k

    def visible(self, ts, pst, label, prim=None):
        if prim is not None:
            acc = self.w.prim_access.setdefault(prim.name, set())
            if pst.thread not in acc:
                acc.add(pst.thread)
                self.w.changed = True
            if len(acc) <= 1 and not isinstance(prim, prims.SimQueue):
                # an event / lock that only this thread ever touches: its operations commute with everything else
                pst.labels.append("(local) " + label)
                return
        if pst.did_visible:
            raise CutHere()
        pst.did_visible = True
        pst.labels.append(label)

    # ------------------------------------------------------------------ primitives
    def prim_call(self, ts, pst, th, obj, name, args, kwargs):
        """Returns forks or None; pushes the result on the caller's stack."""
        caller = ts.frames[-1]
        w = self.w
        if isinstance(obj, prims.SimManager):
            caller.stack.append(obj if name == "__enter__" else None)
            return None
        label = "%s.%s" % (getattr(obj, "name", None) or w.name_of(obj), name)
        if isinstance(obj, (threading.Thread, _mpp.BaseProcess)) and not isinstance(obj, prims.SimObj):
            tn = w.thread_of_obj.get(id(obj))
            if name == "start":
                if tn is None:
                    tn = getattr(obj, "_vf_name", None)
                    if tn is None:
                        base = type(obj).__name__
                        tn = "%s#%d" % (base, sum(1 for x in w.thread_order if x.split("#")[0] == base))
                    w.add_thread(tn, obj.run, obj)
                self.visible(ts, pst, "start %s" % tn)
                pst.write("started.%s:b" % tn, "b", True)
                caller.stack.append(None)
                return None
            if name == "join":
                if tn is None:
                    raise VMError("join of a thread that is never started")
                self.visible(ts, pst, "join %s" % tn)
                pst.cond.append(pst.read("done.%s:b" % tn, "b"))
                caller.stack.append(None)
                return None
            if name == "is_alive":
                self.visible(ts, pst, "is_alive %s" % tn)
                caller.stack.append(z3.And(pst.read("started.%s:b" % tn, "b"), z3.Not(pst.read("done.%s:b" % tn, "b"))))
                return None
        self.visible(ts, pst, label, prim=obj if isinstance(obj, prims.SimObj) else None)
        if isinstance(obj, prims.SimQueue):
            return self.queue_op(ts, pst, th, obj, name, args, kwargs)
        if isinstance(obj, (prims.SimFile, prims.SimMmap)):
            return self.file_op(ts, pst, th, obj, name, args, kwargs, announced=True)
        if isinstance(obj, prims.SimManagerList):
            return self.mlist_op(ts, pst, th, obj, name, args, announced=True)
        if isinstance(obj, prims.SimEvent):
            v = "%s.flag:b" % obj.name
            w.declare(v, "b", obj.init)
            if name == "set":
                pst.write(v, "b", True)
                caller.stack.append(None)
            elif name == "clear":
                pst.write(v, "b", False)
                caller.stack.append(None)
            elif name == "is_set":
                caller.stack.append(pst.read(v, "b"))
            elif name == "wait":
                if args or kwargs:
                    raise VMError("Event.wait with a timeout is not modelled")
                pst.cond.append(pst.read(v, "b"))
                caller.stack.append(True)
            else:
                raise VMError("Event.%s not modelled" % name)
            return None
        if isinstance(obj, prims.SimLock):
            v = "%s.holder:i" % obj.name
            d = "%s.depth:i" % obj.name
            w.declare(v, "i", -1)
            me = I(w.thread_order.index(th.name))
            cur = pst.read(v, "i")
            if name in ("acquire", "__enter__"):
                if obj.reentrant:
                    w.declare(d, "i", 0)
                    dep = pst.read(d, "i")
                    pst.cond.append(z3.Or(cur == I(-1), cur == me))
                    pst.write(d, "i", dep + I(1))
                else:
                    pst.cond.append(cur == I(-1))
                pst.write(v, "i", me)
                caller.stack.append(True)
            elif name in ("release", "__exit__"):
                if obj.reentrant:
                    dep = pst.read(d, "i")
                    pst.write(d, "i", dep - I(1))
                    pst.write(v, "i", z3.If(dep == I(1), I(-1), cur))
                else:
                    pst.write(v, "i", I(-1))
                caller.stack.append(None)
            else:
                raise VMError("Lock.%s not modelled" % name)
            return None
        raise VMError("primitive %r.%s not modelled" % (obj, name))

    def file_op(self, ts, pst, th, obj, name, args, kwargs, announced=False):
        """OS-level semantics of files under fork (prims.SimFile): description 0 belongs to the process that opened the file
        first (thread 0) and is what every forked child's inherited handle refers to; open() in process p switches p's handle
        to p's own description with position 0. seek/readline act on the description the caller's handle refers to.
        A line is represented by its index (-1: the read did not start at the beginning of a line)."""
        w = self.w
        caller = ts.frames[-1]
        me = w.thread_order.index(th.name)
        F = obj.file if isinstance(obj, prims.SimMmap) else obj
        if not announced:
            self.visible(ts, pst, "%s.%s" % (obj.name, name), prim=obj)
        offs = [int(o) for o in F.offsets]

        def line_at(cur):
            r = I(-1)
            for i in reversed(range(len(offs))):
                r = z3.If(cur == I(offs[i]), I(i), r)
            return r

        def next_pos(cur):
            r = I(F.size)
            for o in reversed(offs[1:]):
                r = z3.If(cur < I(o), I(o), r)
            return z3.If(cur >= I(F.size), cur, r)

        if isinstance(obj, prims.SimMmap):
            pv = "%s.pos.%d:i" % (obj.name, me)
            w.declare(pv, "i", 0)
            if name == "mmap":
                pst.write(pv, "i", I(0))
                caller.stack.append(obj)
            elif name == "seek":
                pst.write(pv, "i", as_bv(args[0]))
                caller.stack.append(None)
            elif name == "readline":
                cur = pst.read(pv, "i")
                pst.write(pv, "i", next_pos(cur))
                caller.stack.append(line_at(cur))
            elif name == "close":
                caller.stack.append(None)
            else:
                raise VMError("mmap.%s not modelled" % name)
            return None
        dv = "%s.desc.%d:i" % (F.name, me)
        p0 = "%s.pos.0:i" % F.name
        pm = "%s.pos.%d:i" % (F.name, me)
        w.declare(dv, "i", 0)
        w.declare(p0, "i", 0)
        w.declare(pm, "i", 0)
        d = pst.read(dv, "i")
        own = (d != I(0)) if me != 0 else False
        if name == "open":
            pst.write(dv, "i", I(me))
            pst.write(pm, "i", I(0))
            caller.stack.append(F)
        elif name == "seek":
            off = as_bv(args[0])
            if me == 0:
                pst.write(p0, "i", off)
            else:
                a0, am = pst.read(p0, "i"), pst.read(pm, "i")
                pst.write(p0, "i", z3.If(own, a0, off))
                pst.write(pm, "i", z3.If(own, off, am))
            caller.stack.append(None)
        elif name == "readline":
            if me == 0:
                cur = pst.read(p0, "i")
                pst.write(p0, "i", next_pos(cur))
            else:
                a0, am = pst.read(p0, "i"), pst.read(pm, "i")
                cur = z3.If(own, am, a0)
                pst.write(p0, "i", z3.If(own, a0, next_pos(cur)))
                pst.write(pm, "i", z3.If(own, next_pos(cur), am))
            caller.stack.append(line_at(cur))
        elif name == "close":
            caller.stack.append(None)
        elif name == "fileno":
            caller.stack.append(F)  # only ever passed on to mmap.mmap
        else:
            raise VMError("file.%s not modelled" % name)
        return None

    def mlist_op(self, ts, pst, th, L, name, args, announced=False):
        """Manager().list() proxy: each call is one atomic visible step on the shared list."""
        w = self.w
        st = ts.frames[-1].stack
        if L.elem is None or L.cap is None:
            raise VMError("manager list %s has no declared slot shape/capacity" % L.name)
        if not announced:
            self.visible(ts, pst, "%s.%s" % (L.name, name), prim=L)
        ln_name = "%s.len:i" % L.name
        w.declare(ln_name, "i", len(L.init))
        proto = default_of(L.elem)
        for j in range(L.cap):
            out0 = []
            flatten(coerce(L.init[j], L.elem) if j < len(L.init) else proto, L.elem, "%s.%d" % (L.name, j), out0)
            for n0, s0, e0 in out0:
                e0 = z3.simplify(e0)
                w.declare(n0, s0, (e0.as_signed_long() if z3.is_bv_value(e0) else z3.is_true(e0)))
        ln = pst.read(ln_name, "i")

        def slot(j):
            return unflatten(proto, L.elem, "%s.%d" % (L.name, j), pst.read)

        def wslot(j, val):
            out = []
            flatten(val, L.elem, "%s.%d" % (L.name, j), out)
            for n, s, e in out:
                pst.write(n, s, e)

        if name == "len":
            st.append(ln)
        elif name == "getitem":
            k = as_bv(args[0])
            r = slot(L.cap - 1)
            for j in range(L.cap - 2, -1, -1):
                r = ite(k == I(j), slot(j), r)
            pst.set_flag("negative-index-into-manager-list", k < I(0))
            return self.branch(ts, pst, k >= ln, lambda t, p: self.do_raise(t, p, th, IndexError("list index out of range")),
                               lambda t, p: t.frames[-1].stack.append(r))
        elif name == "setitem":
            k = as_bv(args[0])
            val = coerce(args[1], L.elem)
            for j in range(L.cap):
                wslot(j, ite(k == I(j), val, slot(j)))
            pst.set_flag("indexerror-manager-list", z3.Or(k < I(0), k >= ln))
            pass
        elif name == "iter":
            # iteration over the proxy, modelled as ONE atomic snapshot of the list (used by flush(), which requires that no
            # other process uses the storage)
            st.pop()
            snap = SList(L.cap, ln, [slot(j) for j in range(L.cap)], L.elem)
            st.append(ListIter(snap, 0))
        elif name == "setslice":
            sl, val = args
            if not (sl.start is None and sl.stop is None and sl.step is None and isinstance(val, SList) and isinstance(val.length, int) and val.length == 0):
                raise VMError("only lst[:] = [] is modelled on manager lists")
            pst.write(ln_name, "i", I(0))
        elif name == "append":
            val = coerce(args[0], L.elem)
            for j in range(L.cap):
                wslot(j, ite(ln == I(j), val, slot(j)))
            pst.write(ln_name, "i", ln + I(1))
            pst.set_flag("bound_exceeded", ln >= I(L.cap))
            st.append(None)
        elif name == "extend":
            src = args[0]
            if not (isinstance(src, SList) and (src.elem == ("c", "NoneType", None) or (isinstance(src.length, int) and src.length == 0))):
                raise VMError("manager list extend() is modelled for lists of None only")
            n = as_bv(src.length)
            none = coerce(None, L.elem)
            for j in range(L.cap):
                wslot(j, ite(z3.And(ln <= I(j), I(j) < ln + n), none, slot(j)))
            pst.write(ln_name, "i", ln + n)
            pst.set_flag("bound_exceeded", ln + n > I(L.cap))
            st.append(None)
        else:
            raise VMError("manager list .%s not modelled" % name)
        return None

    def storage_file_op(self, ts, pst, th, name, h, args, kwargs):
        """prims.SimStorageFiles: file number k (symbolic) selects the file; lines are integer tags; offsets are line numbers.
        A file has n lines that other processes can see and `pend` lines that are still in the (single) writer's buffer:
        print(..., flush=True) = one step "D.print" (append + flush); print(...) without flush = step "D.write" (the line is
        buffered: tell() counts it, readers do not see it); flush()/close() make the buffered lines visible."""
        w = self.w
        D = w.storage_files
        st = ts.frames[-1].stack
        me = w.thread_order.index(th.name)
        if name == "print" and not kwargs.get("flush"):
            name = "write"
        if name != "count_existing":  # harness observation made when no other process is running: not a step
            self.visible(ts, pst, "%s.%s" % (D.name, name), prim=D)
        k = as_bv(h)
        NF, ML = D.nfiles, D.maxlines
        for f in range(NF):
            w.declare("%s.n.%d:i" % (D.name, f), "i", 0)
            w.declare("%s.pend.%d:i" % (D.name, f), "i", 0)
            w.declare("%s.writer.%d:i" % (D.name, f), "i", -1)
            w.declare("%s.exists.%d:b" % (D.name, f), "b", False)
            w.declare("%s.rp.%d.%d:i" % (D.name, me, f), "i", 0)
            for j in range(ML):
                w.declare("%s.c.%d.%d:i" % (D.name, f, j), "i", 0)
        pst.set_flag("storage-file-number-out-of-range", z3.Or(k < I(0), k >= I(NF)))

        def nvar(f):
            return "%s.n.%d:i" % (D.name, f)

        def pvar(f):
            return "%s.pend.%d:i" % (D.name, f)

        def rvar(f):
            return "%s.rp.%d.%d:i" % (D.name, me, f)

        def sel(fn):
            r = fn(NF - 1)
            for f in range(NF - 2, -1, -1):
                r = z3.If(k == I(f), fn(f), r)
            return r

        def do_flush(only_own=False):
            for f in range(NF):
                n, pe = pst.read(nvar(f), "i"), pst.read(pvar(f), "i")
                hit = k == I(f)
                if only_own:  # close() of a read handle must not flush another process' write buffer
                    hit = z3.And(hit, pst.read("%s.writer.%d:i" % (D.name, f), "i") == I(me))
                pst.write(nvar(f), "i", z3.If(hit, n + pe, n))
                pst.write(pvar(f), "i", z3.If(hit, I(0), pe))

        if name == "open":
            mode = args[0] if args else kwargs.get("mode", "r")
            if mode == "w":
                for f in range(NF):
                    pst.write(nvar(f), "i", z3.If(k == I(f), I(0), pst.read(nvar(f), "i")))
                    pst.write(pvar(f), "i", z3.If(k == I(f), I(0), pst.read(pvar(f), "i")))
            elif mode == "r":
                for f in range(NF):
                    pst.write(rvar(f), "i", z3.If(k == I(f), I(0), pst.read(rvar(f), "i")))
            elif mode != "a":
                raise VMError("open mode %r not modelled" % (mode,))
            if mode in ("w", "a"):
                for f in range(NF):
                    wv = "%s.writer.%d:i" % (D.name, f)
                    pst.write(wv, "i", z3.If(k == I(f), I(me), pst.read(wv, "i")))
                    ev = "%s.exists.%d:b" % (D.name, f)
                    pst.write(ev, "b", z3.Or(k == I(f), pst.read(ev, "b")))
            else:
                pst.set_flag("filenotfounderror-open-for-reading", z3.Not(sel(lambda f: pst.read("%s.exists.%d:b" % (D.name, f), "b"))))
            st.append(h)
        elif name == "tell":
            st.append(sel(lambda f: pst.read(nvar(f), "i") + pst.read(pvar(f), "i")))
        elif name in ("print", "write"):
            data = as_bv(args[0])
            for f in range(NF):
                n, pe = pst.read(nvar(f), "i"), pst.read(pvar(f), "i")
                for j in range(ML):
                    cv = "%s.c.%d.%d:i" % (D.name, f, j)
                    pst.write(cv, "i", z3.If(z3.And(k == I(f), n + pe == I(j)), data, pst.read(cv, "i")))
                pst.write(pvar(f), "i", z3.If(k == I(f), pe + I(1), pe))
            pst.set_flag("bound_exceeded", sel(lambda f: pst.read(nvar(f), "i") + pst.read(pvar(f), "i")) > I(ML))
            if name == "print":
                do_flush()
            st.append(None)
        elif name == "flush":
            do_flush()
            st.append(None)
        elif name == "remove":
            pst.set_flag("filenotfounderror-remove", z3.Not(sel(lambda f: pst.read("%s.exists.%d:b" % (D.name, f), "b"))))
            for f in range(NF):
                ev = "%s.exists.%d:b" % (D.name, f)
                pst.write(ev, "b", z3.And(k != I(f), pst.read(ev, "b")))
                pst.write(nvar(f), "i", z3.If(k == I(f), I(0), pst.read(nvar(f), "i")))
                pst.write(pvar(f), "i", z3.If(k == I(f), I(0), pst.read(pvar(f), "i")))
            st.append(None)
        elif name == "count_existing":
            n = I(0)
            for f in range(NF):
                n = n + z3.If(pst.read("%s.exists.%d:b" % (D.name, f), "b"), I(1), I(0))
            st.append(z3.simplify(n))
        elif name == "seek":
            off = as_bv(args[0])
            for f in range(NF):
                pst.write(rvar(f), "i", z3.If(k == I(f), off, pst.read(rvar(f), "i")))
            st.append(off)
        elif name == "readline":
            pos = sel(lambda f: pst.read(rvar(f), "i"))
            n = sel(lambda f: pst.read(nvar(f), "i"))

            def line_of(f):
                r = I(-1)
                for j in range(ML - 1, -1, -1):
                    r = z3.If(pos == I(j), pst.read("%s.c.%d.%d:i" % (D.name, f, j), "i"), r)
                return r

            val = z3.If(z3.And(pos >= I(0), pos < n), sel(line_of), I(-1))  # -1: nothing there yet (empty string)
            for f in range(NF):
                cur = pst.read(rvar(f), "i")
                pst.write(rvar(f), "i", z3.If(z3.And(k == I(f), pos < n), cur + I(1), cur))
            st.append(val)
        elif name == "close":
            do_flush(only_own=True)  # closing a write handle flushes its buffer
            st.append(None)
        else:
            raise VMError("storage file .%s not modelled" % name)
        return None

    def queue_op(self, ts, pst, th, q, name, args, kwargs):
        w = self.w
        if q.elem is None or q.cap is None:
            raise VMError("queue %s has no declared slot shape/capacity" % q.name)
        ln_name = "%s.len:i" % q.name
        w.declare(ln_name, "i", 0)
        ln = pst.read(ln_name, "i")
        proto = default_of(q.elem)

        def slot(j):
            return unflatten(proto, q.elem, "%s.%d" % (q.name, j), pst.read)

        def write_slot(j, val):
            out = []
            flatten(val, q.elem, "%s.%d" % (q.name, j), out)
            for n, s, e in out:
                pst.write(n, s, e)

        block = True
        if name in ("put", "get"):
            rest = list(args[1:]) if name == "put" else list(args)
            if rest:
                block = rest[0]
            if "block" in kwargs:
                block = kwargs["block"]
            if ("timeout" in kwargs and kwargs["timeout"] is not None) or (len(rest) > 1 and rest[1] is not None):
                # time is abstracted: a timed call may expire whenever it would have to wait => behaves like block=False
                block = False
        if name == "qsize":
            ts.frames[-1].stack.append(ln)
            return None
        if name == "empty":
            ts.frames[-1].stack.append(ln == I(0))
            return None
        if name == "put":
            val = coerce(args[0], q.elem)

            def do_put(ts_, pst_):
                ln_ = pst_.read(ln_name, "i")
                for j in range(q.cap):
                    cur = unflatten(proto, q.elem, "%s.%d" % (q.name, j), pst_.read)
                    out = []
                    flatten(ite(ln_ == I(j), val, cur), q.elem, "%s.%d" % (q.name, j), out)
                    for n, s, e in out:
                        pst_.write(n, s, e)
                pst_.write(ln_name, "i", ln_ + I(1))
                pst_.set_flag("bound_exceeded", ln_ >= I(q.cap))
                ts_.frames[-1].stack.append(None)

            if q.maxsize is None:
                do_put(ts, pst)
                return None
            full = ln >= I(q.maxsize)
            if block is True:
                pst.cond.append(z3.Not(full))
                do_put(ts, pst)
                return None
            return self.branch(ts, pst, full, lambda t, p: self.do_raise(t, p, th, _queue.Full()), do_put)
        if name == "get":
            def do_get(ts_, pst_):
                ln_ = pst_.read(ln_name, "i")
                head = unflatten(proto, q.elem, "%s.0" % q.name, pst_.read)
                vals = [unflatten(proto, q.elem, "%s.%d" % (q.name, j), pst_.read) for j in range(q.cap)]
                for j in range(q.cap - 1):
                    out = []
                    flatten(vals[j + 1], q.elem, "%s.%d" % (q.name, j), out)
                    for n, s, e in out:
                        pst_.write(n, s, e)
                pst_.write(ln_name, "i", ln_ - I(1))
                ts_.frames[-1].stack.append(_normalise_opt(head))

            nonempty = ln > I(0)
            if block is True:
                pst.cond.append(nonempty)
                do_get(ts, pst)
                return None
            return self.branch(ts, pst, nonempty, do_get, lambda t, p: self.do_raise(t, p, th, _queue.Empty()))
        raise VMError("Queue.%s not modelled" % name)

    # ------------------------------------------------------------------ containers and builtins
    def container_method(self, ts, pst, obj, name, args):
        st = ts.frames[-1].stack
        if isinstance(obj, SList):
            if name == "append":
                self.list_append(pst, obj, args[0])
                st.append(None)
                return None
            if name == "extend":
                src = args[0]
                if isinstance(src, (list, tuple)):
                    for x in src:
                        self.list_append(pst, obj, x)
                    st.append(None)
                    self.writeback(ts, pst, self.w.threads[pst.thread], obj)
                    return None
                if isinstance(src, SList) and src.elem == ("c", "NoneType", None):
                    # extend by n Nones (n symbolic)
                    if obj.elem is None:
                        obj.elem = src.elem
                        obj.slots = [None] * obj.cap
                    else:
                        j = join_shape(obj.elem, src.elem)
                        if j != obj.elem:
                            obj.slots = [coerce(x, j) for x in obj.slots] + [default_of(j)] * (obj.cap - len(obj.slots))
                            obj.elem = j
                    ln, n = as_bv(obj.length), as_bv(src.length)
                    none = coerce(None, obj.elem) if obj.elem != ("c", "NoneType", None) else None
                    if none is not None:
                        obj.slots = [ite(z3.And(ln <= I(j), I(j) < ln + n), none, obj.slots[j]) for j in range(obj.cap)]
                    pst.set_flag("bound_exceeded", ln + n > I(obj.cap))
                    obj.length = z3.simplify(ln + n)
                    st.append(None)
                    self.writeback(ts, pst, self.w.threads[pst.thread], obj)
                    return None
        raise VMError("method %s of %s not modelled" % (name, type(obj).__name__))

    def list_append(self, pst, lst, val):
        if (lst.elem is None or lst.elem == "objs") and isinstance(lst.length, int) and not _has_sym(val) \
                and not isinstance(val, (int, float, str, bool, tuple, type(None))):
            # a list of distinct concrete objects (e.g. the worker processes created by mul_p_map)
            lst.elem = "objs"
            lst.slots = list(lst.slots[:lst.length]) + [val]
            lst.length += 1
            lst.cap = max(lst.cap, lst.length)
            return
        sh = shape_of(val)
        if lst.elem is None:
            lst.elem = sh
            lst.slots = [default_of(sh) for _ in range(lst.cap)]
        elif lst.elem != sh:
            j = join_shape(lst.elem, sh)
            if j != lst.elem:
                lst.slots = [coerce(x, j) for x in lst.slots]
                lst.elem = j
            val = coerce(val, lst.elem)
        if isinstance(lst.length, int):
            if lst.length >= lst.cap:
                pst.set_flag("bound_exceeded", True)
                return
            lst.slots[lst.length] = val
            lst.length += 1
            return
        ln = lst.length
        lst.slots = [ite(ln == I(j), val, lst.slots[j]) for j in range(lst.cap)]
        pst.set_flag("bound_exceeded", ln >= I(lst.cap))
        lst.length = ln + I(1)

    def list_get(self, pst, lst, idx):
        if isinstance(idx, int) and not isinstance(idx, bool):
            if idx < 0:
                raise VMError("negative list index")
            if idx >= lst.cap or idx >= len(lst.slots):
                return default_of(lst.elem)  # callers guard the access with idx < len
            return lst.slots[idx]
        if lst.elem is None or lst.elem == ("c", "NoneType", None):
            return None  # a list that (so far) only ever holds None
        slots = list(lst.slots) + [default_of(lst.elem)] * (lst.cap - len(lst.slots))
        r = slots[lst.cap - 1]
        for j in range(lst.cap - 2, -1, -1):
            r = ite(idx == I(j), slots[j], r)
        return r

    def builtin_call(self, ts, pst, th, func, args, kwargs):
        st = ts.frames[-1].stack
        if func is len:
            a = args[0]
            if isinstance(a, SList):
                st.append(a.length)
            elif isinstance(a, SDict):
                n = I(0)
                for p in a.present:
                    n = n + z3.If(as_bool(p), I(1), I(0))
                st.append(z3.simplify(n))
            elif isinstance(a, prims.SimManagerList):
                return self.mlist_op(ts, pst, th, a, "len", [])
            elif isinstance(a, (list, tuple, str, dict)):
                st.append(CInt(len(a)))
            elif hasattr(type(a), "__len__") and isinstance(type(a).__len__, types.FunctionType) and self.w.is_inline(type(a).__len__):
                return self.push_call(ts, pst, types.MethodType(type(a).__len__, a), [], {}, th)
            else:
                raise VMError("len() of %r" % (a,))
            return None
        if func is range:
            if len(args) == 1:
                st.append(RangeIter(0, args[0]))
            elif len(args) == 2:
                st.append(RangeIter(args[0], args[1]))
            else:
                raise VMError("range with step")
            return None
        if func is enumerate:
            st.append(EnumIter(self.get_iter(args[0]), args[1] if len(args) > 1 else kwargs.get("start", 0)))
            return None
        if func is zip:
            st.append(ZipIter([self.get_iter(a) for a in args]))
            return None
        if func is isinstance:
            a, t = args
            if is_symint(a):
                st.append(int in (t if isinstance(t, tuple) else (t,)))
            elif is_symbool(a):
                st.append(any(x in (bool, int) for x in (t if isinstance(t, tuple) else (t,))))
            elif isinstance(a, (SList,)):
                st.append(list in (t if isinstance(t, tuple) else (t,)))
            else:
                st.append(isinstance(a, t))
            return None
        if func is print:
            fl = kwargs.get("file")
            if self.w.storage_files is not None and isinstance(fl, SOpt) and is_symint(fl.payload):
                pst.set_flag("attributeerror-None-has-no-attribute", fl.is_none)
                fl = fl.payload
            if self.w.storage_files is not None and is_symint(fl):
                return self.storage_file_op(ts, pst, th, "print", fl, args, kwargs)
            st.append(None)
            return None
        if func is _mp.parent_process:
            st.append(None)  # the modelled processes are plain fork() children: multiprocessing's bookkeeping knows nothing about them
            return None
        if func is _os.remove and self.w.storage_files is not None and args and is_symint(args[0]):
            return self.storage_file_op(ts, pst, th, "remove", args[0], args[1:], kwargs)
        if func is _os.getpid:
            st.append(self.w.thread_order.index(th.name))  # one process per modelled thread of control
            return None
        if func is open and self.w.storage_files is not None and args and is_symint(args[0]):
            return self.storage_file_op(ts, pst, th, "open", args[0], args[1:], kwargs)
        if func is open:
            fobj = self.w.files.get(args[0]) if args and isinstance(args[0], str) else None
            if fobj is None:
                raise VMError("open(%r) of a file that is not modelled" % (args[:1],))
            return self.file_op(ts, pst, th, fobj, "open", args, kwargs)
        if func is int and len(args) == 1 and (is_symint(args[0]) or isinstance(args[0], int)):
            st.append(args[0])
            return None
        if func is str:
            if isinstance(args[0], SOpt) and self.w.storage_files is not None:
                args = [self.unopt(pst, args[0])]
            if is_symint(args[0]) and self.w.storage_files is not None:
                st.append(args[0])  # a storage file path is represented by the file number it is built from
                return None
            st.append(str(args[0]) if not is_z3(args[0]) else "<sym>")
            return None
        if func is sorted:
            return intr.sorted_builtin(self, ts, pst, th, args, kwargs)
        if func is list and len(args) <= 1:
            if not args:
                st.append(SList(self.cap_for(ts.frames[-1]), 0, [], None))
                return None
        if func is iter:
            st.append(self.get_iter(args[0]))
            return None
        if all(not _has_sym(a) for a in args) and all(not _has_sym(a) for a in kwargs.values()):
            if isinstance(func, (types.BuiltinFunctionType, types.BuiltinMethodType, type)) or not self.w.is_inline(func):
                try:
                    st.append(func(*args, **kwargs))
                except VMError:
                    raise
                except Exception as e:  # a concrete library call that raises: propagate inside the VM
                    return self.do_raise(ts, pst, th, e)
                return None
        raise VMError("call of %r with symbolic arguments is not modelled" % (func,))

    def get_iter(self, v):
        if isinstance(v, (RangeIter, ListIter, EnumIter, ZipIter, InputIter, GenObj)):
            return v
        if isinstance(v, (SList, tuple)):
            return ListIter(v, 0)
        if isinstance(v, list):
            return ListIter(v, 0)
        if isinstance(v, range):
            return RangeIter(v.start, v.stop, v.step)
        raise VMError("iteration over %r is not modelled" % (v,))

    def iter_next(self, pst, it):
        """Returns (has_next: bool|z3, value, advance_fn). Not for GenObj."""
        if isinstance(it, RangeIter):
            if isinstance(it.idx, int) and isinstance(it.stop, int):
                has = it.idx < it.stop
            else:
                has = as_bv(it.idx) < as_bv(it.stop)
            val = it.idx

            def adv():
                it.idx = it.idx + 1 if isinstance(it.idx, int) else it.idx + I(1)

            return has, val, adv
        if isinstance(it, InputIter):
            has = as_bv(it.idx) < as_bv(it.n)
            val = it.idx

            def adv():
                it.idx = it.idx + 1 if isinstance(it.idx, int) else it.idx + I(1)

            return has, val, adv
        if isinstance(it, ListIter):
            lst = it.lst
            if isinstance(lst, (list, tuple)):
                if not isinstance(it.idx, int):
                    if isinstance(lst, tuple):
                        lst = SList(len(lst), len(lst), list(lst), shape_of(lst[0]) if lst else None)
                    else:
                        raise VMError("symbolic index into a list of objects")
                else:
                    has = it.idx < len(lst)
                    if has and isinstance(lst, list) and id(lst) in self.w.reflists:
                        val = self.read_reflist(self._cur_ts, pst, lst, it.idx)
                    else:
                        val = lst[it.idx] if has else None

                    def adv():
                        it.idx += 1

                    return has, val, adv
            ln = lst.length
            if lst.elem == "objs":
                has = it.idx < ln
                val = lst.slots[it.idx] if has else None

                def adv():
                    it.idx += 1

                return has, val, adv
            if isinstance(it.idx, int) and isinstance(ln, int):
                has = it.idx < ln
            elif isinstance(it.idx, int) and it.idx >= lst.cap:
                has = False
            else:
                has = as_bv(it.idx) < as_bv(ln)
            val = self.list_get(pst, lst, it.idx) if lst.cap > 0 and lst.slots else None

            def adv():
                it.idx = it.idx + 1 if isinstance(it.idx, int) else it.idx + I(1)

            return has, val, adv
        if isinstance(it, EnumIter):
            has, val, adv0 = self.iter_next(pst, it.inner)
            cnt = it.count

            def adv():
                adv0()
                it.count = it.count + 1 if isinstance(it.count, int) else it.count + I(1)

            return has, (cnt, val), adv
        if isinstance(it, ZipIter):
            parts = [self.iter_next(pst, x) for x in it.inners]
            has = True
            for hp, _, _ in parts:
                if isinstance(hp, bool):
                    if not hp:
                        has = False
                        break
                else:
                    has = hp if has is True else z3.And(has, hp)

            def adv():
                for _, _, a in parts:
                    a()

            return has, tuple(p[1] for p in parts), adv
        raise VMError("next() of %r" % (it,))

    # ------------------------------------------------------------------ exceptions
    def do_raise(self, ts, pst, th, exc):
        """Unwind to the innermost handler. Mutates ts. Raises PathEnd if the thread dies."""
        while ts.frames:
            f = ts.frames[-1]
            off = f.ins[f.cur].offset
            handler = None
            for e in f.table:
                if e.start <= off < e.end:
                    handler = e
                    break
            if handler is not None:
                del f.stack[handler.depth:]
                if handler.lasti:
                    f.stack.append(off)
                f.stack.append(exc)
                f.ip = f.off2idx[handler.target]
                return None
            ts.frames.pop()
            if f.gen is not None:
                f.gen.done = True
                f.gen.frame = None
        pst.write("crashed.%s:b" % th.name, "b", True)
        pst.labels.append("uncaught %s%s" % (type(exc).__name__, ("(%s)" % (str(exc)[:80].replace(" ", "_"))) if _TRACE else ""))
        if th.obj is None:
            pst.set_flag("uncaught-exception-in-scenario", True)
        raise PathEnd()

    # ------------------------------------------------------------------ one instruction
    def step(self, ts, pst, th):
        pst.steps += 1
        if pst.steps > self.w.max_path_steps:
            raise VMError("local path of thread %s exceeds %d instructions (unbounded local loop?)" % (th.name, self.w.max_path_steps))
        f = ts.frames[-1]
        self._cur_ts = ts
        if f.ip >= len(f.ins):
            raise VMError("fell off the end of %s" % f.code.co_qualname)
        ins = f.ins[f.ip]
        f.cur = f.ip
        f.ip += 1
        op = ins.opname
        st = f.stack
        if _TRACE:
            print("   [%s] %s:%s %s %s | stack=%d" % (th.name, f.code.co_name, ins.positions.lineno if ins.positions else "?", op,
                                                 ins.argrepr[:30], len(st)), file=sys.stderr)
        m = getattr(self, "op_" + op, None)
        if m is None:
            raise VMError("opcode %s not supported (%s line %s)" % (op, f.code.co_qualname, ins.positions.lineno if ins.positions else "?"))
        saved_stack = list(st)
        try:
            return m(ts, pst, th, f, ins, st)
        except CutHere:
            f.stack[:] = saved_stack
            f.ip = f.cur
            raise
        except Alternatives as alt:
            f.stack[:] = saved_stack
            f.ip = f.cur
            forks = []
            for cond, prepare in alt.alts:
                ts2, pst2 = clone_tstate(ts), pst.clone()
                prepare(ts2, pst2)
                forks.append((cond, ts2, pst2))
            return forks
        except VMError as e:
            if not getattr(e, "_located", False):
                e._located = True
                e.args = ("%s  [thread %s, %s line %s, %s; call stack: %s]" % (
                    e.args[0] if e.args else "", th.name, f.code.co_qualname, ins.positions.lineno if ins.positions else "?",
                    op, " > ".join(fr.code.co_qualname for fr in ts.frames)),)
            raise

    # trivial ops
    def op_RESUME(self, ts, pst, th, f, ins, st):
        return None

    op_NOP = op_EXTENDED_ARG = op_RESUME

    def op_CACHE(self, *a):
        return None

    def op_POP_TOP(self, ts, pst, th, f, ins, st):
        st.pop()

    def op_PUSH_NULL(self, ts, pst, th, f, ins, st):
        st.append(NULL)

    def op_COPY(self, ts, pst, th, f, ins, st):
        st.append(st[-ins.arg])

    def op_SWAP(self, ts, pst, th, f, ins, st):
        st[-1], st[-ins.arg] = st[-ins.arg], st[-1]

    def op_LOAD_CONST(self, ts, pst, th, f, ins, st):
        st.append(ins.argval)

    def op_LOAD_FAST(self, ts, pst, th, f, ins, st):
        v = f.locals.get(ins.argval, NULL)
        if v is NULL:
            return self.do_raise(ts, pst, th, UnboundLocalError(ins.argval))
        st.append(v)

    op_LOAD_FAST_CHECK = op_LOAD_FAST

    def op_LOAD_CLOSURE(self, ts, pst, th, f, ins, st):
        st.append(f.locals[ins.argval])

    def op_LOAD_FAST_AND_CLEAR(self, ts, pst, th, f, ins, st):
        st.append(f.locals.get(ins.argval, NULL))
        f.locals[ins.argval] = NULL

    def op_STORE_FAST(self, ts, pst, th, f, ins, st):
        v = st.pop()
        if v is NULL:
            f.locals.pop(ins.argval, None)
        else:
            f.locals[ins.argval] = v

    def op_MAKE_CELL(self, ts, pst, th, f, ins, st):
        f.locals[ins.argval] = Cell(f.locals.get(ins.argval, NULL))

    def op_COPY_FREE_VARS(self, ts, pst, th, f, ins, st):
        return None  # done at frame creation

    def op_LOAD_DEREF(self, ts, pst, th, f, ins, st):
        c = f.locals[ins.argval]
        if c.v is NULL:
            return self.do_raise(ts, pst, th, NameError(ins.argval))
        st.append(c.v)

    def op_STORE_DEREF(self, ts, pst, th, f, ins, st):
        f.locals[ins.argval].v = st.pop()

    def op_LOAD_GLOBAL(self, ts, pst, th, f, ins, st):
        name = ins.argval
        if ins.arg & 1:
            st.append(NULL)
        if name in f.globs:
            st.append(f.globs[name])
        else:
            import builtins
            st.append(getattr(builtins, name))

    def op_LOAD_ATTR(self, ts, pst, th, f, ins, st):
        obj = st[-1]
        if hasattr(obj, "__dict__") and not isinstance(obj, (prims.SimObj, types.ModuleType, type)) and not is_z3(obj):
            for k in type(obj).__mro__:
                d = k.__dict__.get(ins.argval)
                if d is not None:
                    if isinstance(d, property) and isinstance(d.fget, types.FunctionType) and self.w.is_inline(d.fget):
                        st.pop()
                        if ins.arg & 1:
                            st.append(NULL)
                        return self.push_call(ts, pst, types.MethodType(d.fget, obj), [], {}, th)
                    break
        v = self.load_attr(ts, pst, th, obj, ins.argval)
        st.pop()
        if ins.arg & 1:
            st.append(NULL)
        st.append(v)

    def op_LOAD_SUPER_ATTR(self, ts, pst, th, f, ins, st):
        self_obj = st.pop()
        cls = st.pop()
        st.pop()
        v = getattr(super(cls, self_obj), ins.argval)
        if ins.arg & 1:
            st.append(NULL)
        st.append(v)

    def op_STORE_ATTR(self, ts, pst, th, f, ins, st):
        obj = st[-1]
        val = st[-2]
        self.store_attr(ts, pst, th, obj, ins.argval, val)
        st.pop()
        st.pop()

    def op_BUILD_TUPLE(self, ts, pst, th, f, ins, st):
        n = ins.arg
        vals = st[len(st) - n:] if n else []
        del st[len(st) - n:]
        st.append(tuple(vals))

    def op_BUILD_LIST(self, ts, pst, th, f, ins, st):
        n = ins.arg
        vals = st[len(st) - n:] if n else []
        del st[len(st) - n:]
        lst = SList(max(self.cap_for(f), n), 0, [], None)
        for v in vals:
            self.list_append(pst, lst, v)
        st.append(lst)

    def op_BUILD_MAP(self, ts, pst, th, f, ins, st):
        if ins.arg != 0:
            raise VMError("dict displays with items are not modelled")
        st.append(SDict(self.w.dict_keys))

    def op_BUILD_STRING(self, ts, pst, th, f, ins, st):
        n = ins.arg
        del st[len(st) - n:]
        st.append("<str>")

    def op_FORMAT_VALUE(self, ts, pst, th, f, ins, st):
        if (ins.arg & 0x04) == 0x04:
            st.pop()
        st.pop()
        st.append("<fmt>")

    def op_LIST_APPEND(self, ts, pst, th, f, ins, st):
        v = st.pop()
        self.list_append(pst, st[-ins.arg], v)

    def op_CALL_INTRINSIC_1(self, ts, pst, th, f, ins, st):
        if ins.arg == 3:  # INTRINSIC_STOPITERATION_ERROR
            return None
        if ins.arg == 6:  # LIST_TO_TUPLE
            lst = st.pop()
            if isinstance(lst.length, int):
                st.append(tuple(lst.slots[:lst.length]))
                return None
        raise VMError("CALL_INTRINSIC_1 %s" % ins.arg)

    def op_UNPACK_SEQUENCE(self, ts, pst, th, f, ins, st):
        v = st.pop()
        n = ins.arg
        if isinstance(v, SOpt) and self.w.storage_files is not None and isinstance(v.payload, tuple) and len(v.payload) == n:
            pay = v.payload

            def unpack(t, p):
                for x in reversed(pay):
                    t.frames[-1].stack.append(x)
            return self.branch(ts, pst, v.is_none, lambda t, p: self.do_raise(t, p, th, TypeError("cannot unpack non-iterable NoneType object")), unpack)
        if isinstance(v, SOpt):
            # the code has established `is not None` on this path (or this is a bug that raises TypeError)
            pst.cond.append(z3.Not(v.is_none))
            v = v.payload
        if isinstance(v, tuple):
            if len(v) != n:
                return self.do_raise(ts, pst, th, ValueError("unpack"))
            for x in reversed(v):
                st.append(x)
            return None
        if isinstance(v, SList) and isinstance(v.length, int) and v.length == n:
            for x in reversed(v.slots[:n]):
                st.append(x)
            return None
        raise VMError("unpacking of %r" % (v,))

    def op_BINARY_OP(self, ts, pst, th, f, ins, st):
        b = self.unopt(pst, st.pop())
        a = self.unopt(pst, st.pop())
        sym = ins.argrepr.rstrip("=") if ins.argrepr not in ("==",) else ins.argrepr
        st.append(self.binop(pst, sym, a, b))

    def binop(self, pst, sym, a, b):
        if sym == "*" and isinstance(a, SList) and a.elem == ("c", "NoneType", None) and (is_symint(b) or isinstance(b, int)):
            # [None, ...] * n with a symbolic n: a list of len*n Nones (negative n gives the empty list); the length of the
            # literal may itself have been generalised at a cut point between BUILD_LIST and the multiplication
            cap = self.w.default_cap
            tot = as_bv(a.length) * as_bv(b) if is_z3(a.length) else I(a.length) * as_bv(b) if a.length != 1 else as_bv(b)
            n = z3.If(as_bv(b) < I(0), I(0), tot)
            pst.set_flag("bound_exceeded", z3.Or(as_bv(b) > I(cap), n > I(cap)))
            return SList(cap, n, [None] * cap, ("c", "NoneType", None))
        if sym == "+" and self.w.storage_files is not None and ((isinstance(a, str) and is_symint(b)) or (isinstance(b, str) and is_symint(a))):
            return b if isinstance(a, str) else a  # path built from a file number: represented by the number
        if not _has_sym(a) and not _has_sym(b) and not isinstance(a, (SList, SDict)) and not isinstance(b, (SList, SDict)):
            import operator
            ops = {"+": operator.add, "-": operator.sub, "*": operator.mul, "//": operator.floordiv, "%": operator.mod,
                   "/": operator.truediv, "&": operator.and_, "|": operator.or_}
            if sym not in ops:
                raise VMError("binary operator %s" % sym)
            return ops[sym](a, b)
        if isinstance(a, float) or isinstance(b, float):
            if (isinstance(a, float) and math.isinf(a)) and sym in ("+", "-"):
                return a
            raise VMError("float arithmetic with symbolic operands")
        if isinstance(a, SList) and isinstance(b, (SList, list)) and sym == "+":
            r = clone_value(a, {})
            items = b.slots[:b.length] if isinstance(b, SList) and isinstance(b.length, int) else b
            if isinstance(items, SList):
                raise VMError("list concatenation with symbolic length")
            for x in items:
                self.list_append(pst, r, x)
            return r
        x, y = as_bv(a), as_bv(b)
        if sym == "+":
            r = x + y
            pst.set_flag("bound_exceeded", z3.Or(z3.And(x > 0, y > 0, r < 0), z3.And(x < 0, y < 0, r >= 0)))
            return r
        if sym == "-":
            r = x - y
            pst.set_flag("bound_exceeded", z3.Or(z3.And(x >= 0, y < 0, r < 0), z3.And(x < 0, y > 0, r >= 0)))
            return r
        if sym == "*":
            if isinstance(a, int) or isinstance(b, int):
                return x * y
        raise VMError("binary operator %s on symbolic operands" % sym)

    def unopt(self, pst, v):
        """An optional used where a number is required: the payload, with a flag raised if it can be None here
        (CPython would raise TypeError)."""
        if isinstance(v, SOpt) and not isinstance(v.payload, (tuple, SList)):
            pst.set_flag("typeerror-None-used-as-number", v.is_none)
            return v.payload
        return v

    def op_UNARY_NOT(self, ts, pst, th, f, ins, st):
        st.append(_not(self.truth(st.pop())))

    def op_UNARY_NEGATIVE(self, ts, pst, th, f, ins, st):
        v = st.pop()
        st.append(-v if not is_z3(v) else I(0) - as_bv(v))

    def op_COMPARE_OP(self, ts, pst, th, f, ins, st):
        b = st.pop()
        a = st.pop()
        if ins.argval in ("<", "<=", ">", ">="):
            a, b = self.unopt(pst, a), self.unopt(pst, b)
        st.append(self.compare(ins.argval, a, b))

    def compare(self, opn, a, b):
        if not _has_sym(a) and not _has_sym(b):
            import operator
            return {"<": operator.lt, "<=": operator.le, "==": operator.eq, "!=": operator.ne, ">": operator.gt,
                    ">=": operator.ge}[opn](a, b)
        for x, y, flip in ((a, b, False), (b, a, True)):
            if isinstance(y, float) and (is_symint(x) or isinstance(x, int)):
                if math.isinf(y):
                    o = opn if not flip else {"<": ">", "<=": ">=", ">": "<", ">=": "<=", "==": "==", "!=": "!="}[opn]
                    pos = y > 0
                    return {"<": pos, "<=": pos, ">": not pos, ">=": not pos, "==": False, "!=": True}[o]
                raise VMError("comparison with a float")
        if isinstance(a, SOpt) or isinstance(b, SOpt) or a is None or b is None:
            if opn in ("==", "!="):
                if isinstance(a, SOpt) and b is not None and not isinstance(b, SOpt):
                    r = z3.And(z3.Not(a.is_none), as_bool(self.compare("==", a.payload, b)))
                elif isinstance(b, SOpt) and a is not None and not isinstance(a, SOpt):
                    r = z3.And(z3.Not(b.is_none), as_bool(self.compare("==", a, b.payload)))
                else:
                    r = self.is_same(a, b)
                return r if opn == "==" else _not(r)
            raise VMError("ordering comparison with None")
        if (isinstance(a, bool) or is_symbool(a)) and (isinstance(b, bool) or is_symbool(b)) and opn in ("==", "!="):
            r = as_bool(a) == as_bool(b)
            return r if opn == "==" else z3.Not(r)
        if isinstance(a, (tuple, SList)) or isinstance(b, (tuple, SList)):
            if opn in ("==", "!="):
                r = self.seq_eq(a, b)
                return r if opn == "==" else _not(r)
            raise VMError("ordering of sequences")
        x, y = as_bv(a), as_bv(b)
        return {"<": x < y, "<=": x <= y, "==": x == y, "!=": x != y, ">": x > y, ">=": x >= y}[opn]

    def seq_eq(self, a, b):
        if isinstance(a, tuple) and isinstance(b, tuple):
            if len(a) != len(b):
                return False
            cs = [self.compare("==", x, y) for x, y in zip(a, b)]
            return _and(cs)
        if isinstance(a, SList) and isinstance(b, SList):
            cs = [as_bv(a.length) == as_bv(b.length)]
            n = min(a.cap, b.cap)
            for j in range(n):
                if j < len(a.slots) and j < len(b.slots):
                    cs.append(z3.Implies(as_bv(a.length) > I(j), as_bool(self.compare("==", a.slots[j], b.slots[j]))))
            return z3.And(cs)
        raise VMError("sequence comparison %r == %r" % (a, b))

    def is_same(self, a, b):
        if isinstance(a, SOpt) and b is None:
            return a.is_none
        if isinstance(b, SOpt) and a is None:
            return b.is_none
        if a is None and b is None:
            return True
        if a is None or b is None:
            x = b if a is None else a
            if is_z3(x) or isinstance(x, (tuple, SList, SDict, int)):
                return False
            return x is None
        if isinstance(a, SOpt) and isinstance(b, SOpt):
            raise VMError("identity of two optionals")
        if is_z3(a) or is_z3(b):
            return self.compare("==", a, b)
        return a is b

    def op_IS_OP(self, ts, pst, th, f, ins, st):
        b = st.pop()
        a = st.pop()
        r = self.is_same(a, b)
        st.append(_not(r) if ins.arg else r)

    def op_CONTAINS_OP(self, ts, pst, th, f, ins, st):
        cont = st.pop()
        item = st.pop()
        if isinstance(cont, SDict):
            k = as_bv(item)
            r = z3.Or([z3.And(k == I(j), as_bool(cont.present[j])) for j in range(cont.K)])
        elif isinstance(cont, SList):
            r = z3.Or([z3.And(as_bv(cont.length) > I(j), as_bool(self.compare("==", item, cont.slots[j])))
                       for j in range(len(cont.slots))]) if cont.slots else False
        elif not _has_sym(item) and not _has_sym(cont):
            r = item in cont
        else:
            raise VMError("`in` on %r" % (cont,))
        st.append(_not(r) if ins.arg else r)

    def op_BINARY_SUBSCR(self, ts, pst, th, f, ins, st):
        k = self.unopt(pst, st.pop())
        c = st.pop()
        if isinstance(c, SOpt):
            pst.cond.append(z3.Not(c.is_none))
            c = c.payload
        if isinstance(c, SDict):
            kk = as_bv(k)
            r = c.vals[c.K - 1]
            for j in range(c.K - 2, -1, -1):
                r = ite(kk == I(j), c.vals[j], r) if c.vals[j] is not None else r
            st.append(r)
            return None
        if isinstance(c, SList):
            st.append(self.list_get(pst, c, k))
            return None
        if isinstance(c, prims.SimManagerList):
            saved = list(st) + [c, k]
            try:
                return self.mlist_op(ts, pst, th, c, "getitem", [k])
            except CutHere:
                f.stack[:] = saved
                raise
        if isinstance(c, tuple) and isinstance(k, int):
            st.append(c[k])
            return None
        if isinstance(c, tuple) and is_symint(k):
            r = c[-1]
            for j in range(len(c) - 2, -1, -1):
                r = ite(k == I(j), c[j], r)
            st.append(r)
            return None
        if isinstance(c, list) and id(c) in self.w.reflists and isinstance(k, int):
            st.append(self.read_reflist(ts, pst, c, k))
            return None
        if isinstance(c, (list, dict)) and is_symint(k) and c and all(type(x) is int for x in (c if isinstance(c, list) else list(c.values()) + list(c.keys()))):
            # constant table of integers (line offsets): a chain of if-then-else instead of one path per entry
            keys = list(range(len(c))) if isinstance(c, list) else sorted(c)
            r = I(c[keys[-1]])
            for j in reversed(keys[:-1]):
                r = z3.If(k == I(j), I(c[j]), r)
            pst.set_flag("indexerror-or-keyerror-in-constant-table", z3.Not(z3.Or([k == I(j) for j in keys])))
            st.append(r)
            return None
        if isinstance(c, list) and is_symint(k) and not _has_sym(c):
            if not c:
                return self.do_raise(ts, pst, th, IndexError("list index out of range"))
            alts = []
            for j in range(len(c)):
                def prep(t, p, j=j):
                    t.frames[-1].stack[-1] = j
                alts.append((k == I(j), prep))
            raise Alternatives(alts)
        gi = getattr(type(c), "__getitem__", None)
        if isinstance(gi, types.FunctionType) and self.w.is_inline(gi) and hasattr(c, "__dict__"):
            return self.push_call(ts, pst, types.MethodType(gi, c), [k], {}, th)
        if not _has_sym(c) and not _has_sym(k):
            try:
                st.append(c[k])
            except Exception as e:  # noqa
                return self.do_raise(ts, pst, th, e)
            return None
        raise VMError("subscript %r[%r]" % (c, k))

    def op_STORE_SUBSCR(self, ts, pst, th, f, ins, st):
        k = self.unopt(pst, st.pop())
        c = st.pop()
        v = st.pop()
        if isinstance(c, SDict):
            sh = shape_of(v)
            if c.elem is None:
                c.elem = sh
                c.vals = [default_of(sh) for _ in range(c.K)]
            elif c.elem != sh:
                v = coerce(v, c.elem)
            kk = as_bv(k)
            pst.set_flag("bound_exceeded", z3.Or(kk < I(0), kk >= I(c.K)))
            c.vals = [ite(kk == I(j), v, c.vals[j]) for j in range(c.K)]
            c.present = [z3.Or(as_bool(c.present[j]), kk == I(j)) for j in range(c.K)]
            self.writeback(ts, pst, th, c)
            return None
        if isinstance(c, SList):
            kk = as_bv(k)
            sh = shape_of(v)
            if c.elem is None or c.elem != sh:
                j = join_shape(c.elem, sh)
                if j != c.elem:
                    c.slots = [coerce(x, j) for x in c.slots] + [default_of(j)] * (c.cap - len(c.slots))
                    c.elem = j
            c.slots = [ite(kk == I(j), coerce(v, c.elem), c.slots[j]) for j in range(c.cap)]
            self.writeback(ts, pst, th, c)
            return None
        if isinstance(c, prims.SimManagerList):
            saved = list(st) + [v, c, k]
            try:
                if isinstance(k, slice):
                    return self.mlist_op(ts, pst, th, c, "setslice", [k, v])
                return self.mlist_op(ts, pst, th, c, "setitem", [k, v])
            except CutHere:
                f.stack[:] = saved
                raise
        if isinstance(c, list) and isinstance(k, int) and not _has_sym(v):
            self.write_reflist(ts, pst, th, c, k, v)
            return None
        if isinstance(c, list) and is_symint(k) and not _has_sym(v):
            # symbolic index into a real list of objects: case split on the index, then re-execute
            alts = []
            for j in range(len(c)):
                def prep(t, p, j=j):
                    t.frames[-1].stack[-1] = j
                alts.append((k == I(j), prep))
            raise Alternatives(alts)
        si = getattr(type(c), "__setitem__", None)
        if isinstance(si, types.FunctionType) and self.w.is_inline(si) and hasattr(c, "__dict__"):
            fr = self.make_call_frame(types.MethodType(si, c), [k, v], {}, f)
            if fr is not None:
                fr.discard_ret = True
                ts.frames.append(fr)
                return None
        raise VMError("item assignment on %r" % (c,))

    def op_STORE_SLICE(self, ts, pst, th, f, ins, st):
        end = st.pop()
        start = st.pop()
        c = st.pop()
        v = st.pop()
        if isinstance(c, prims.SimManagerList) and start is None and end is None:
            return self.mlist_op(ts, pst, th, c, "setslice", [slice(None, None, None), v])
        raise VMError("slice assignment on %r" % (c,))

    def op_DELETE_SUBSCR(self, ts, pst, th, f, ins, st):
        k = st.pop()
        c = st.pop()
        if isinstance(c, SDict):
            kk = as_bv(k)
            c.present = [z3.And(as_bool(c.present[j]), kk != I(j)) for j in range(c.K)]
            self.writeback(ts, pst, th, c)
            return None
        raise VMError("del on %r" % (c,))

    def writeback(self, ts, pst, th, container):
        """Containers read from a heap cell are values; a mutation is written back to the cell they came from."""
        origin = getattr(container, "_origin", None)
        if origin is not None:
            obj, attr = origin
            self.store_attr(ts, pst, th, obj, attr, container)

    # control flow
    def _jump(self, f, ins):
        f.ip = f.off2idx[ins.argval]

    def op_JUMP_FORWARD(self, ts, pst, th, f, ins, st):
        self._jump(f, ins)

    op_JUMP_BACKWARD = op_JUMP_BACKWARD_NO_INTERRUPT = op_JUMP_FORWARD

    def _cond_jump(self, ts, pst, f, ins, cond, jump_if):
        tgt = f.off2idx[ins.argval]
        depth = len(ts.frames) - 1

        def jmp(t, p):
            t.frames[depth].ip = tgt

        def stay(t, p):
            pass

        return self.branch(ts, pst, cond, jmp if jump_if else stay, stay if jump_if else jmp)

    def op_POP_JUMP_IF_FALSE(self, ts, pst, th, f, ins, st):
        return self._cond_jump(ts, pst, f, ins, self.truth(st.pop()), False)

    def op_POP_JUMP_IF_TRUE(self, ts, pst, th, f, ins, st):
        return self._cond_jump(ts, pst, f, ins, self.truth(st.pop()), True)

    def op_POP_JUMP_IF_NONE(self, ts, pst, th, f, ins, st):
        return self._cond_jump(ts, pst, f, ins, self.is_same(st.pop(), None), True)

    def op_POP_JUMP_IF_NOT_NONE(self, ts, pst, th, f, ins, st):
        return self._cond_jump(ts, pst, f, ins, self.is_same(st.pop(), None), False)

    def op_GET_ITER(self, ts, pst, th, f, ins, st):
        v = st.pop()
        if isinstance(v, SOpt):
            pst.set_flag("typeerror-None-iterated", v.is_none)
            v = v.payload
        if isinstance(v, prims.SimManagerList):
            st.append(v)
            try:
                r = self.mlist_op(ts, pst, th, v, "iter", [])
            finally:
                pass
            return r
        if not isinstance(v, (RangeIter, ListIter, EnumIter, ZipIter, InputIter, GenObj, SList, tuple, list, range)):
            it = getattr(type(v), "__iter__", None)
            if isinstance(it, types.FunctionType) and self.w.is_inline(it):
                return self.push_call(ts, pst, types.MethodType(it, v), [], {}, th)
        st.append(self.get_iter(v))

    def op_GET_YIELD_FROM_ITER(self, ts, pst, th, f, ins, st):
        if not isinstance(st[-1], GenObj):
            st.append(self.get_iter(st.pop()))

    def _exhausted(self, f, ins):
        # pop the iterator and continue after END_FOR
        f.stack.pop()
        f.ip = f.off2idx[ins.argval] + 1

    def op_FOR_ITER(self, ts, pst, th, f, ins, st):
        it = st[-1]
        gen = self._innermost_gen(it)
        if gen is not None:
            return self.resume_gen(ts, pst, th, f, ins, it, ("for", ins.argval))
        has, val, adv = self.iter_next(pst, it)
        depth = len(ts.frames) - 1
        idx_it = len(st) - 1

        def take(t, p):
            fr = t.frames[depth]
            it2 = fr.stack[idx_it]
            h2, v2, adv2 = self.iter_next(p, it2)
            adv2()
            fr.stack.append(v2)

        def stop(t, p):
            self._exhausted(t.frames[depth], ins)

        return self.branch(ts, pst, has, take, stop)

    def _innermost_gen(self, it):
        if isinstance(it, GenObj):
            return it
        if isinstance(it, EnumIter):
            return self._innermost_gen(it.inner)
        if isinstance(it, ZipIter):
            for x in it.inners:
                if self._innermost_gen(x) is not None:
                    raise VMError("zip over generators is not modelled")
        return None

    def resume_gen(self, ts, pst, th, f, ins, it, how):
        gen = self._innermost_gen(it)
        if gen.done:
            if how[0] == "for":
                self._exhausted(f, ins)
            else:
                f.stack.pop()  # the sent value
                f.stack.append(None)
                f.ip = f.off2idx[how[1]]
            return None
        gf = gen.frame
        gf.resumer = how
        if gf.ip > 0 or gf.cur > 0:
            gf.stack.append(None)  # value sent into the generator
        ts.frames.append(gf)
        return None

    def deliver_yield(self, ts, pst, th, value):
        """The top frame (a generator) yielded `value` (frame already popped). Continue in the resumer."""
        f = ts.frames[-1]
        ins = f.ins[f.cur]
        if ins.opname == "FOR_ITER":
            it = f.stack[-1]
            v = value
            while not isinstance(it, GenObj):  # enumerate(gen)
                cnt = it.count
                it.count = it.count + 1 if isinstance(it.count, int) else it.count + I(1)
                v = (cnt, v) if isinstance(it.inner, GenObj) else v
                it = it.inner
            f.stack.append(v)
        elif ins.opname == "SEND":
            f.stack.pop()
            f.stack.append(value)
        else:
            raise VMError("generator resumed from %s" % ins.opname)

    def op_YIELD_VALUE(self, ts, pst, th, f, ins, st):
        v = st.pop()
        ts.frames.pop()
        if not ts.frames:
            raise VMError("yield outside of a consumer")
        self.deliver_yield(ts, pst, th, v)

    def op_RETURN_GENERATOR(self, ts, pst, th, f, ins, st):
        st.append(None)

    def _return(self, ts, pst, th, f, v):
        ts.frames.pop()
        if f.gen is not None:
            f.gen.done = True
            f.gen.frame = None
            if not ts.frames:
                raise PathEnd()
            c = ts.frames[-1]
            cins = c.ins[c.cur]
            if cins.opname == "FOR_ITER":
                self._exhausted(c, cins)
            elif cins.opname == "SEND":
                c.stack.pop()
                c.stack.append(v)
                c.ip = c.off2idx[cins.argval]
            else:
                raise VMError("generator return into %s" % cins.opname)
            return None
        if not ts.frames:
            raise PathEnd()
        if f.ret_override is not NULL:
            v = f.ret_override
        if not f.discard_ret:
            ts.frames[-1].stack.append(v)
        return None

    def op_RETURN_VALUE(self, ts, pst, th, f, ins, st):
        return self._return(ts, pst, th, f, st.pop())

    def op_RETURN_CONST(self, ts, pst, th, f, ins, st):
        return self._return(ts, pst, th, f, ins.argval)

    def op_END_FOR(self, ts, pst, th, f, ins, st):
        st.pop()
        st.pop()

    def op_END_SEND(self, ts, pst, th, f, ins, st):
        del st[-2]

    def op_SEND(self, ts, pst, th, f, ins, st):
        it = st[-2]
        if isinstance(it, GenObj):
            return self.resume_gen(ts, pst, th, f, ins, it, ("send", ins.argval))
        raise VMError("yield from a non-generator")

    def op_CLEANUP_THROW(self, ts, pst, th, f, ins, st):
        raise VMError("throw() into a delegating generator is not modelled")

    # calls
    def op_KW_NAMES(self, ts, pst, th, f, ins, st):
        f._kwnames = ins.argval

    def op_CALL(self, ts, pst, th, f, ins, st):
        argc = ins.arg
        kwnames = getattr(f, "_kwnames", ()) or ()
        f._kwnames = ()
        args = st[len(st) - argc:] if argc else []
        a = st[len(st) - argc - 2]
        b = st[len(st) - argc - 1]
        if a is NULL:
            func = b
            allargs = list(args)
        else:
            func = a
            allargs = [b] + list(args)
        kwargs = {}
        if kwnames:
            n = len(kwnames)
            kwargs = dict(zip(kwnames, allargs[len(allargs) - n:]))
            allargs = allargs[:len(allargs) - n]
        saved = list(st)
        del st[len(st) - argc - 2:]
        try:
            return self.push_call(ts, pst, func, allargs, kwargs, th)
        except (CutHere, Alternatives):
            f.stack[:] = saved
            f._kwnames = kwnames  # the instruction is executed again from the new node: it needs its KW_NAMES again
            raise

    def op_MAKE_FUNCTION(self, ts, pst, th, f, ins, st):
        code = st.pop()
        closure = ()
        defaults = ()
        kwdefaults = None
        if ins.arg & 0x08:
            closure = st.pop()
        if ins.arg & 0x04:
            st.pop()
        if ins.arg & 0x02:
            kwdefaults = st.pop()
        if ins.arg & 0x01:
            defaults = st.pop()
        st.append(SFunction(code, f.globs, defaults, closure, kwdefaults))

    # with / exceptions
    def op_BEFORE_WITH(self, ts, pst, th, f, ins, st):
        mgr = st[-1]
        if isinstance(mgr, SOpt) and isinstance(mgr.payload, prims.SimObj):
            pst.set_flag("typeerror-None-used-as-context-manager", mgr.is_none)
            mgr = mgr.payload
            st[-1] = mgr
        if isinstance(mgr, prims.SimObj):
            saved = list(st)
            st.pop()
            st.append(BoundMethod(_PrimExit(), mgr))
            try:
                return self.prim_call(ts, pst, th, mgr, "__enter__", [], {})
            except CutHere:
                f.stack[:] = saved
                raise
        ex = getattr(type(mgr), "__exit__", None)
        en = getattr(type(mgr), "__enter__", None)
        if mgr.__class__.__name__ == "nullcontext":
            st.pop()
            st.append(BoundMethod(_NoopExit(), mgr))
            st.append(None)
            return None
        if not (isinstance(ex, types.FunctionType) and isinstance(en, types.FunctionType)):
            raise VMError("context manager %r is not modelled" % (mgr,))
        st.pop()
        st.append(types.MethodType(ex, mgr))
        return self.push_call(ts, pst, types.MethodType(en, mgr), [], {}, th)

    def op_WITH_EXCEPT_START(self, ts, pst, th, f, ins, st):
        exit_fn = st[-4]
        exc = st[-1]
        return self.push_call(ts, pst, exit_fn, [type(exc), exc, None], {}, th)

    def op_PUSH_EXC_INFO(self, ts, pst, th, f, ins, st):
        exc = st.pop()
        st.append(None)
        st.append(exc)

    def op_POP_EXCEPT(self, ts, pst, th, f, ins, st):
        st.pop()

    def op_CHECK_EXC_MATCH(self, ts, pst, th, f, ins, st):
        t = st.pop()
        st.append(isinstance(st[-1], t))

    def op_RERAISE(self, ts, pst, th, f, ins, st):
        exc = st.pop()
        return self.do_raise(ts, pst, th, exc)

    def op_RAISE_VARARGS(self, ts, pst, th, f, ins, st):
        if ins.arg == 0:
            raise VMError("bare raise outside handler")
        cause = st.pop() if ins.arg == 2 else None
        exc = st.pop()
        if isinstance(exc, type):
            exc = exc()
        return self.do_raise(ts, pst, th, exc)


def merge_parallel_edges(edges):
    """Edges with the same source and destination (different local paths, disjoint guards) are merged into one edge
    whose updates are if-then-else chains over the path guards (large-block encoding)."""
    groups = {}
    order = []
    for e in edges:
        k = (e.src, e.dst, e.visible)
        if k not in groups:
            groups[k] = []
            order.append(k)
        groups[k].append(e)
    out = []
    for k in order:
        es = groups[k]
        if len(es) == 1:
            out.append(es[0])
            continue
        guard = z3.simplify(z3.Or([e.guard for e in es]))
        names = []
        for e in es:
            for n in e.updates:
                if n not in names:
                    names.append(n)
        upd = {}
        for n in names:
            sort = "i" if n.endswith(":i") else "b"
            cur = var(n, sort)
            expr = cur
            for e in es:
                expr = z3.If(e.guard, e.updates.get(n, cur), expr)
            upd[n] = z3.simplify(expr)
        reads = set()
        for e in es:
            reads |= e.reads
        reads |= set(names)
        labels = []
        for e in es:
            if e.label not in labels:
                labels.append(e.label)
        out.append(Edge(es[0].thread, k[0], k[1], guard, upd, " | ".join(labels)[:200], reads, set(names), k[2]))
    return out


class _ContainerMethod:
    def __init__(self, obj, name):
        self.obj = obj
        self.name = name


class _HandleMethod:
    """method of a value that is represented by an integer (storage file handle, line id): one constant object per name,
    bound to the integer with values.BoundMethod (which the VM can keep on a stack across cut points)"""

    def __init__(self, name):
        self.name = name


_HANDLE_FUNCS = {n: _HandleMethod(n) for n in ("tell", "seek", "readline", "close", "flush")}
_LINE_IDENT = _HandleMethod("identity")


class _LineIdent:
    def __init__(self, v):
        self.v = v


class _PrimExit:
    """__exit__ of a primitive context manager (lock): dispatched through prim_call"""
    __name__ = "__exit__"
    qualname = "__exit__"


class _NoopExit:
    __name__ = "__exit__"
    qualname = "__exit__"


def _consts(e):
    seen = set()
    out = []
    stack = [e]
    while stack:
        x = stack.pop()
        if x.get_id() in seen:
            continue
        seen.add(x.get_id())
        if z3.is_const(x) and x.decl().kind() == z3.Z3_OP_UNINTERPRETED:
            out.append(x)
        else:
            stack.extend(x.children())
    return out


def _has_sym(v):
    if is_z3(v):
        return True
    if isinstance(v, (SList, SDict, SOpt, RangeIter, ListIter, EnumIter, ZipIter, InputIter, GenObj)):
        return True
    if isinstance(v, tuple):
        return any(_has_sym(x) for x in v)
    return False


def _not(r):
    return (not r) if isinstance(r, bool) else z3.Not(r)


def _and(cs):
    if any(c is False for c in cs):
        return False
    cs = [c for c in cs if c is not True]
    if not cs:
        return True
    return z3.And([as_bool(c) for c in cs])


def _normalise_opt(v):
    return v


def _coercible(real, shape):
    try:
        coerce(real, shape)
        return True
    except Exception:
        return False


def join_shape(a, b):
    if a == "unset" or a is None:
        return b
    if b is None or a == b:
        return a
    none = ("c", "NoneType", None)
    if a == none and b != none:
        if isinstance(b, tuple) and b[0] == "O":
            return b
        return ("O", b)
    if b == none:
        if isinstance(a, tuple) and a[0] == "O":
            return a
        return ("O", a)
    if isinstance(a, tuple) and a[0] == "O":
        return ("O", join_shape(a[1], b[1] if (isinstance(b, tuple) and b[0] == "O") else b))
    if isinstance(b, tuple) and b[0] == "O":
        return ("O", join_shape(a, b[1]))
    if isinstance(a, tuple) and isinstance(b, tuple) and a[0] == b[0] == "L":
        return ("L", max(a[1], b[1]), join_shape(a[2], b[2]))
    if isinstance(a, tuple) and isinstance(b, tuple) and a[0] == b[0] == "D":
        return ("D", max(a[1], b[1]), join_shape(a[2], b[2]))
    if isinstance(a, tuple) and isinstance(b, tuple) and a[0] == b[0] == "t" and len(a) == len(b):
        return ("t",) + tuple(join_shape(x, y) for x, y in zip(a[1:], b[1:]))
    def _k(x):
        if x in ("i", "b"):
            return x
        if isinstance(x, tuple) and x and x[0] == "c" and x[1] == "bool":
            return "b"
        if isinstance(x, tuple) and x and x[0] == "c" and x[1] == "CInt":
            return "i"
        return None

    if _k(a) and _k(b):
        return "b" if (_k(a) == "b" and _k(b) == "b") else "i"
    if a in ("i", "b") and b in ("i", "b"):
        return "i"
    if isinstance(a, tuple) and a[0] == "c" and a[1] == "float" and b == "i":
        return "i"
    if isinstance(b, tuple) and b[0] == "c" and b[1] == "float" and a == "i":
        return "i"
    raise VMError("heap cell / container holds values of incompatible shapes: %r vs %r" % (a, b))
