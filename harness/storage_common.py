"""Scenario and set-up for C14 (Engine C): a TextFileStorage created in a parent process is written by forked writer
processes and read by a forked reader process at the same time; afterwards the parent inspects it.

Environment model: the Manager lists (_index, _file_paths), the two multiprocessing.Value counters and the RLock are shared
primitives whose proxy calls are atomic steps (vm.mlist_op, SimValue, SimLock); the storage files are prims.SimStorageFiles
(vm.storage_file_op): a file is a sequence of complete lines, one line = one integer tag, an offset = a line number, and
print(text, file=f, flush=True) appends one complete line in one step. Every process owns a copy of the Python object
(fork), i.e. its own _file, _process_identifier and _opened_files_for_reading. The text stored under identifier g is the
tag g, so "exactly the text stored under g" is `result == g`; -1 stands for an empty line (nothing at that offset yet).
"""
import copy
import multiprocessing

from windpyutils.parallel import storage as stmod
from windpyutils.parallel.storage import TextFileStorage

from vf.bmc.values import CInt
from vf.bmc.intrinsics import v_param, v_assert, v_text, v_texts_match, v_role, v_storage_files_left

DIR = "/vf/storage"


class Writer(multiprocessing.Process):
    def __init__(self, st, first, nwrites, G):
        super().__init__()
        self.st = st
        self.first = first  # number of this writer's first write among all writes of the scenario
        self.nwrites = nwrites
        self.G = G

    def run(self):
        v_role(self._vf_name)
        fresh_process_state(self.st)
        if self.nwrites >= 1:
            one_write(self.st, self.first, self.G)
        if self.nwrites >= 2:
            one_write(self.st, self.first + 1, self.G)
        self.st.close()


class Reader(multiprocessing.Process):
    def __init__(self, st, names, nreads, G):
        super().__init__()
        self.st = st
        self.names = names
        self.nreads = nreads
        self.G = G

    def run(self):
        v_role(self._vf_name)
        fresh_process_state(self.st)
        if self.nreads >= 1:
            one_concurrent_read(self.st, self.names[0], self.G)
        if self.nreads >= 2:
            one_concurrent_read(self.st, self.names[1], self.G)
        self.st.close()


def fresh_process_state(st):
    """no-op on the real object (the attribute is [] in every process that has not read yet); tells the VM that this
    per-process list is state of the encoded code from the start"""
    st._opened_files_for_reading = []


def write_id(j, G):
    """identifier of the j-th write of the scenario: arbitrary, but pairwise distinct (storing twice is checked separately).
    Write 0 takes any id; write 1 any other id (offset parameter, wrapped); write 2 any id different from both."""
    a = v_param("w_id0", 0, G - 1)
    if j == 0:
        return a
    b = a + 1 + v_param("w_off1", 0, G - 2)
    if b >= G:
        b = b - G
    if j == 1:
        return b
    c = v_param("w_skip2", 0, G - 3)
    lo = a
    hi = b
    if b < a:
        lo = b
        hi = a
    if c >= lo:
        c = c + 1
    if c >= hi:
        c = c + 1
    return c


def one_write(st, j, G):
    g = write_id(j, G)
    st[g] = v_text(g)  # the text stored under identifier g (model: the tag g)


def one_concurrent_read(st, name, G):
    g = v_param(name, 0, G - 1)
    try:
        r = st[g]
        v_assert(r == v_text(g), "concurrent-read-returns-exactly-the-text-stored-under-the-id")
    except IndexError:
        pass  # nothing stored under g (yet): allowed while the write is in flight
    except Exception:
        v_assert(False, "concurrent-read-raises-something-other-than-IndexError")


def expect_stored(st, g):
    try:
        r = st[g]
        v_assert(r == v_text(g), "read-after-all-writers-finished-returns-the-stored-text")
    except IndexError:
        v_assert(False, "stored-id-raises-IndexError")


def expect_absent(st, g):
    try:
        r = st[g]
        v_assert(r != r, "id-that-was-never-stored-returns-something")
    except IndexError:
        pass


def total_files(w2):
    return 1 if w2 is None else 2


def scenario_storage(st, w1, w2, rd, total, G, inspect=True):
    # identifiers of all writes are pairwise distinct by construction (write_id)
    a = write_id(0, G)
    b = a
    c = a
    if total >= 2:
        b = write_id(1, G)
    if total >= 3:
        c = write_id(2, G)
    fresh_process_state(st)
    w1.start()
    if w2 is not None:
        w2.start()
    if rd is not None:
        rd.start()
    w1.join()
    if w2 is not None:
        w2.join()
    if rd is not None:
        rd.join()
    if not inspect:
        st.close()
        return
    if inspect == "flush":
        # ---- flush() removes all files and resets the storage (every process has closed it)
        st.close()
        v_assert(v_storage_files_left() == total_files(w2), "every-writer-left-one-file-before-flush")
        st.flush()
        v_assert(v_storage_files_left() == 0, "flush-removes-all-files")
        v_assert(len(st) == 0, "flush-resets-len")
        v_assert(st.is_contiguous(), "flush-resets-is_contiguous")
        out = []
        for x in st:
            out.append(x)
        v_assert(len(out) == 0, "flush-leaves-nothing-to-iterate")
        expect_absent(st, a)
        st[a] = v_text(a)  # the storage is usable again and starts from scratch
        v_assert(len(st) == 1, "store-after-flush")
        expect_stored(st, a)
        st.close()
        return
    # ---- the parent inspects the storage after every writer has finished
    v_assert(len(st) == total, "len-equals-number-of-stored-ids")
    contiguous = a < total
    if total >= 2:
        contiguous = contiguous and b < total
    if total >= 3:
        contiguous = contiguous and c < total
    v_assert(st.is_contiguous() == contiguous, "is_contiguous-iff-ids-are-0..len-1")
    out = []
    for x in st:
        out.append(x)
    if total == 1:
        exp = [a]
    elif total == 2:
        exp = sorted([a, b])
    else:
        exp = sorted([a, b, c])
    v_assert(v_texts_match(out, exp), "iteration-yields-every-stored-text-in-id-order")
    expect_stored(st, a)
    if total >= 2:
        expect_stored(st, b)
    if total >= 3:
        expect_stored(st, c)
    p = v_param("probe", 0, G - 1)
    if p != a and p != b and p != c:
        expect_absent(st, p)
    # ---- storing twice under one id raises ValueError and changes nothing
    try:
        st[a] = v_text(a)
        v_assert(False, "second-store-under-one-id-does-not-raise")
    except ValueError:
        pass
    v_assert(len(st) == total, "failed-second-store-changes-len")
    expect_stored(st, a)
    st.close()


def build(cfg, ctx):
    """The real constructor runs with the shared primitives of ctx in place of Manager()/Value/RLock."""
    class MP:
        Value = staticmethod(ctx.Value)
        RLock = staticmethod(ctx.RLock)

    saved = (stmod.Manager, stmod.multiprocessing)
    stmod.Manager = ctx.Manager
    stmod.multiprocessing = MP
    try:
        st = TextFileStorage(DIR, "s", number_of_data=cfg.get("presize"))
    finally:
        stmod.Manager, stmod.multiprocessing = saved
    return st


def make(cfg, ctx, mode, ctrl=None, restore=None):
    from vf.bmc import prims
    G = cfg.get("ids", 3)
    w1n = cfg.get("w1", 1)
    w2n = cfg.get("w2", 0)
    reads = cfg.get("reads", 0)
    total = w1n + w2n
    NF = 2 + (1 if w2n else 0)  # writers + the parent (its failed second store opens a file too)
    st = build(cfg, ctx)
    st._index.name, st._file_paths.name = "index", "paths"
    st._stored_cnt.name, st._waiting_for.name, st._storage_lock.name = "cnt", "waiting", "lock"
    st._index.elem, st._index.cap = ("O", ("t", "i", "i")), G
    st._file_paths.elem, st._file_paths.cap = "i", NF
    D = prims.SimStorageFiles(NF, max(total, 1) + 1)

    def fork_copy():
        c = copy.copy(st)
        c._opened_files_for_reading = []
        return c

    w1 = Writer(fork_copy(), CInt(0), CInt(w1n), CInt(G))
    w1._vf_name = "writer1"
    w2 = None
    if w2n:
        w2 = Writer(fork_copy(), CInt(w1n), CInt(w2n), CInt(G))
        w2._vf_name = "writer2"
    rd = None
    if reads:
        rd = Reader(fork_copy(), ("r_0", "r_1"), CInt(reads), CInt(G))
        rd._vf_name = "reader"
    info = {"list_caps": {("scenario_storage", "out"): G, ("scenario_storage", "exp"): 3}, "default_cap": max(G, NF, 3), "dict_keys": G + 1,
            "storage_files": D, "shared_prims": ["index", "paths", "cnt", "waiting", "lock", "D"]}
    return {"scenario": scenario_storage, "args": (st, w1, w2, rd, CInt(total), CInt(G), (cfg.get("inspect", True) if cfg.get("inspect", True) == "flush" else bool(cfg.get("inspect", True)))), "info": info}


# ---------------------------------------------------------------------------------------------------- replay
# The model's schedule is executed with REAL processes on the REAL TextFileStorage: real Manager lists, Values and RLock,
# real files in a temporary directory, children started by multiprocessing (fork). Every proxy call / file operation that
# the model treats as one step is released by a coordinator in schedule order (vf/bmc/forkreplay.py). The verdict comes from
# the scenario's own assertions evaluated on what the real object returned.
OPS_PREFIXES = ("index.", "paths.", "cnt.", "waiting.", "lock.", "D.")


def custom_replay(spec):
    import os
    import shutil
    import tempfile
    from vf.bmc import forkreplay, intrinsics as intr
    cfg = spec["cfg"]
    query = spec["query"]
    sched = []
    for s in spec.get("schedule") or []:
        op = (s.get("op") or "").split(";")[0].strip()
        if op.startswith(OPS_PREFIXES):
            sched.append((s["thread"], op.replace(" ", "_")))
    d = tempfile.mkdtemp(prefix="vf_c14_")
    fw = forkreplay.ForkWorld(["main", "writer1", "writer2", "reader"])
    out = {"reproduced": False, "observed": None, "divergence": None, "asserts": [], "ops_executed": 0, "end": None}

    class GList:
        def __init__(self, real, name):
            self._real, self._name = real, name

        def __len__(self):
            return fw.gated(self._name + ".len", len, self._real)

        def __getitem__(self, k):
            return fw.gated(self._name + ".getitem", self._real.__getitem__, k)

        def __setitem__(self, k, v):
            return fw.gated(self._name + (".setslice" if isinstance(k, slice) else ".setitem"), self._real.__setitem__, k, v)

        def extend(self, xs):
            return fw.gated(self._name + ".extend", self._real.extend, xs)

        def append(self, x):
            return fw.gated(self._name + ".append", self._real.append, x)

        def __iter__(self):
            return iter(fw.gated(self._name + ".iter", lambda: list(self._real)))

    class GValue:
        def __init__(self, real, name):
            self._real, self._name = real, name

        @property
        def value(self):
            return fw.gated(self._name + ".value_read", lambda: self._real.value)

        @value.setter
        def value(self, v):
            fw.gated(self._name + ".value_write", lambda: setattr(self._real, "value", v))

    class GLock:
        def __init__(self, real, name):
            self._real, self._name = real, name

        def __enter__(self):
            fw.gate(self._name + ".__enter__")
            if self._real.acquire(False):
                fw.done()
            else:  # only after a divergence: do not keep the coordinator waiting while we block
                fw.done()
                self._real.acquire()
            return True

        def __exit__(self, *a):
            fw.gated(self._name + ".__exit__", self._real.release)
            return False

        def acquire(self, *a):
            return self.__enter__()

        def release(self):
            self.__exit__()

    class GFile:
        """print(x, file=f) calls write(text) and write(newline); the model's step is "D.write" (line buffered) or, when a
        flush follows at once (flush=True), "D.print". The decision is taken at the next call that reaches a gate."""

        def __init__(self, real):
            self._real = real
            self._buf = []
            self._line_done = False

        def _settle(self):
            if self._line_done:  # an unflushed print: its step comes before whatever this process does next
                self._line_done = False
                fw.gated("D.write", self._real.write, "".join(self._buf))
                self._buf.clear()

        def tell(self):
            self._settle()
            return fw.gated("D.tell", self._real.tell)

        def write(self, s):
            self._buf.append(s)
            if s.endswith("\n"):
                self._line_done = True
                pending_files.append(self)
            return len(s)

        def flush(self):
            def do():
                self._real.write("".join(self._buf))
                self._buf.clear()
                self._real.flush()
            if self._line_done:
                self._line_done = False
                fw.gated("D.print", do)
            else:
                fw.gated("D.flush", do)

        def seek(self, off):
            self._settle()
            return fw.gated("D.seek", self._real.seek, off)

        def readline(self):
            self._settle()
            return fw.gated("D.readline", self._real.readline)

        def close(self):
            self._settle()
            return fw.gated("D.close", self._real.close)

    pending_files = []
    plain_gate = fw.gate

    def gate_after_pending_prints(op):
        while pending_files:
            pf = pending_files.pop()
            if pf._line_done and op != "D.print" and not op.startswith("D.flush"):
                pf._settle()
        plain_gate(op)

    fw.gate = gate_after_pending_prints

    real_open = open

    def gated_open(p, *a, **k):
        if not str(p).startswith(d):
            return real_open(p, *a, **k)
        return fw.gated("D.open", lambda: GFile(real_open(p, *a, **k)))

    def parent_role():
        intr.REPLAY["params"] = dict(spec.get("params") or {})
        intr.REPLAY["asserts"] = []
        intr.REPLAY["on_assert"] = lambda label: fw.send("ASSERT %s %s" % (fw.me[0], label))
        intr.REPLAY["on_role"] = fw.set_role
        stmod.open = gated_open

        class OsShim:  # os.remove of a storage file is a step of the model ("D.remove")
            def __getattr__(self, n):
                return getattr(os, n)

            @staticmethod
            def remove(p):
                return fw.gated("D.remove", os.remove, p)

        stmod.os = OsShim()
        G = cfg.get("ids", 3)
        w1n, w2n, reads = cfg.get("w1", 1), cfg.get("w2", 0), cfg.get("reads", 0)
        total = w1n + w2n
        st = TextFileStorage(d, "s", number_of_data=cfg.get("presize"))
        st._index = GList(st._index, "index")
        st._file_paths = GList(st._file_paths, "paths")
        st._stored_cnt = GValue(st._stored_cnt, "cnt")
        st._waiting_for = GValue(st._waiting_for, "waiting")
        st._storage_lock = GLock(st._storage_lock, "lock")

        def fork_copy():
            c = copy.copy(st)
            c._opened_files_for_reading = []
            return c

        def wrap_run(proc):
            inner = proc.run

            def run():
                try:
                    inner()
                except BaseException as e:  # noqa
                    fw.send("UNCAUGHT %s %s" % (fw.me[0], type(e).__name__))
                finally:
                    fw.send("EXIT %s" % fw.me[0])
            proc.run = run
            return proc

        w1 = Writer(fork_copy(), 0, w1n, G)
        w1._vf_name = "writer1"
        wrap_run(w1)
        w2 = rd = None
        if w2n:
            w2 = Writer(fork_copy(), w1n, w2n, G)
            w2._vf_name = "writer2"
            wrap_run(w2)
        if reads:
            rd = Reader(fork_copy(), ("r_0", "r_1"), reads, G)
            rd._vf_name = "reader"
            wrap_run(rd)
        try:
            intr.REPLAY["storage_dir"] = d
            scenario_storage(st, w1, w2, rd, total, G, cfg.get("inspect", True) if cfg.get("inspect", True) == "flush" else bool(cfg.get("inspect", True)))
        except BaseException as e:  # noqa
            fw.send("UNCAUGHT main %s" % type(e).__name__)
        finally:
            try:
                st._manager.shutdown()
            except Exception:
                pass
        fw.send("EXIT main")

    top = os.fork()
    if top == 0:
        try:
            os.setpgid(0, 0)
            import multiprocessing as mp
            mp.set_start_method("fork", force=True)
            parent_role()
        except BaseException as e:  # noqa
            fw.send("CRASH main %s %s" % (type(e).__name__, str(e)[:200]))
        os._exit(0)
    try:
        res = forkreplay.coordinate(fw, top, sched, query)
    finally:
        shutil.rmtree(d, ignore_errors=True)
    asserts = ["%s:%s" % (t[1], " ".join(t[2:])) for t in res["msgs"] if t[0] == "ASSERT"]
    uncaught = ["%s:uncaught %s" % (t[1], t[2]) for t in res["msgs"] if t[0] == "UNCAUGHT"]
    out["asserts"] = asserts + uncaught
    out["divergence"] = res["divergence"]
    out["ops_executed"] = res["ops_executed"]
    out["end"] = "done" if "main" in res["exited"] and not res["crashed"] else ("crashed: %s" % res["crashed"] if res["crashed"] else "timeout")
    if res["crashed"] or res["timed_out"]:
        out["crashed"] = True
    if asserts or uncaught:
        out["reproduced"] = query == "assert"
        out["observed"] = "on the real TextFileStorage with real processes: " + "; ".join(asserts + uncaught)
    else:
        out["observed"] = "no assertion of the scenario failed on the real TextFileStorage (%d gated operations)" % res["ops_executed"]
    return out
