"""Replay of a BMC counterexample against the REAL classes of /repo (DESIGN.md 3.8).

The real code (FunctorPool.imap, SendWorkThread.run, BaseFunctorWorker.run, FunctorMap.__call__, ...) runs unmodified on
a replay context whose primitives are real queue.Queue / threading objects wrapped so that every operation first passes
a gate; worker "processes" run as threads. A controller releases exactly the thread whose visible operation is next in
the counterexample schedule; afterwards all threads are released one visible operation at a time in a fixed order.
Deadlock is decided by the controller (every live thread waits at a gate whose operation is disabled), not by a timeout.
"""
import collections
import queue as _queue
import threading
import time

from vf.bmc import intrinsics as intr


class Divergence(Exception):
    pass


class Controller:
    def __init__(self):
        self.cv = threading.Condition()
        self.names = {}
        self.waiting = {}
        self.turn = None
        self.finished = set()
        self.started = []
        self.log = []
        self.errors = []
        self.counts = collections.Counter()
        self.threads = {}
        self.registered = set()
        self.active = True

    # ---- called from managed threads
    def me(self):
        return self.names.get(threading.get_ident())

    def gate(self, label, enabled=None):
        name = self.me()
        if name is None or not self.active:
            return
        with self.cv:
            self.waiting[name] = (label, enabled or (lambda: True))
            self.cv.notify_all()
            while self.turn != name:
                self.cv.wait()
            self.turn = None
            self.waiting.pop(name, None)
            self.log.append((name, label))
            self.cv.notify_all()

    def register_current(self, name):
        with self.cv:
            self.names[threading.get_ident()] = name
            self.registered.add(name)
            if name not in self.started:
                self.started.append(name)
            self.cv.notify_all()

    def finish_current(self):
        with self.cv:
            name = self.me()
            self.finished.add(name)
            self.waiting.pop(name, None)
            self.cv.notify_all()

    def new_name(self, base):
        k = self.counts[base]
        self.counts[base] += 1
        return "%s#%d" % (base, k)

    def spawn(self, name, target):
        def body():
            self.register_current(name)
            try:
                target()
            except BaseException as e:  # noqa
                self.errors.append((name, repr(e)))
            finally:
                self.finish_current()

        t = threading.Thread(target=body, daemon=True, name="replay-" + name)
        self.threads[name] = t
        with self.cv:
            self.started.append(name)
        t.start()

    def is_finished(self, name):
        return name in self.finished

    # ---- controller side
    def _settled(self, name):
        return name in self.waiting or name in self.finished

    @staticmethod
    def kind(label):
        parts = [p for p in label.split(" | ")[0].split("; ") if not p.startswith("(local) ") and not p.startswith("uncaught")]
        label = parts[0] if parts else label.replace("(local) ", "").split("; ")[0]
        w0 = label.split(" ")[0]
        if w0 in ("read", "write"):
            return w0 + " " + label.rsplit(".", 1)[-1]
        if w0 in ("start", "join", "inspect", "is_done", "is_alive"):
            return w0
        k = label.rsplit(".", 1)[-1]
        return {"__enter__": "acquire", "__exit__": "release"}.get(k, k)

    def grant(self, name, timeout=20.0, expect=None):
        """Release `name` through its gate and wait until it reaches the next gate or finishes. Operations on
        events/locks that the model found to be thread-private are not schedule steps: they are passed through."""
        for _ in range(50):
            with self.cv:
                end = time.time() + timeout
                while name not in self.waiting and name not in self.finished:
                    left = end - time.time()
                    if left <= 0:
                        break
                    self.cv.wait(left)
                cur = self.waiting.get(name)
            if expect is None or cur is None:
                break
            ck = self.kind(cur[0])
            passable = ck in ("set", "clear", "is_set", "wait", "acquire", "release") or cur[0].startswith("read list")
            if ck == self.kind(expect) or not passable:
                break
            self._grant_one(name, timeout)
        return self._grant_one(name, timeout)

    def _grant_one(self, name, timeout=20.0):
        with self.cv:
            end = time.time() + timeout
            while name not in self.waiting:
                if name in self.finished:
                    raise Divergence("thread %s already finished" % name)
                left = end - time.time()
                if left <= 0:
                    raise Divergence("thread %s never reached a gate (known threads: %s)" % (name, sorted(self.started)))
                self.cv.wait(left)
            label, enabled = self.waiting[name]
            if not enabled():
                raise Divergence("operation %s of %s is not enabled in the real run" % (label, name))
            self.turn = name
            self.cv.notify_all()
            while self.turn == name:
                self.cv.wait(1.0)
            end = time.time() + timeout
            while not self._settled(name):
                left = end - time.time()
                if left <= 0:
                    raise Divergence("thread %s did not reach its next gate after %s" % (name, label))
                self.cv.wait(min(left, 0.5))
            # threads started by this step must be registered before we go on
            end = time.time() + timeout
            while any((n not in self.registered) for n in self.started):
                left = end - time.time()
                if left <= 0:
                    break
                self.cv.wait(0.05)
            return label

    def run_free(self, max_ops=100000):
        """After the schedule: release threads one visible operation at a time. Returns 'done' | 'deadlock'."""
        ops = 0
        while ops < max_ops:
            with self.cv:
                live = [n for n in self.started if n not in self.finished]
                if not live:
                    return "done"
                end = time.time() + 10.0
                while any(n not in self.waiting and n not in self.finished for n in live):
                    left = end - time.time()
                    if left <= 0:
                        return "stuck-outside-gates"
                    self.cv.wait(min(left, 0.2))
                live = [n for n in self.started if n not in self.finished]
                if not live:
                    return "done"
                cands = [n for n in live if self.waiting[n][1]()]
                if not cands:
                    return "deadlock"
                pick = sorted(cands)[0]
            self.grant(pick)
            ops += 1
        return "too-long"

    def shutdown(self):
        with self.cv:
            self.active = False
            self.turn = "*"
            for n in list(self.waiting):
                self.turn = n
            self.cv.notify_all()


# ------------------------------------------------------------------------------------------------ gated primitives
class RQueue:
    def __init__(self, ctrl, maxsize=0, name="q"):
        self.c = ctrl
        self.q = _queue.Queue(maxsize if maxsize else 0)
        self.maxsize = maxsize if maxsize else None
        self.name = name

    def put(self, item, block=True, timeout=None):
        if timeout is not None:
            block = False  # time is abstracted exactly as in the model: a timed call may expire whenever it would wait
        self.c.gate("%s.put" % self.name, (lambda: True) if (not block or self.maxsize is None) else (lambda: self.q.qsize() < self.maxsize))
        self.q.put(item, block=False) if True else None

    def get(self, block=True, timeout=None):
        if timeout is not None:
            block = False
        self.c.gate("%s.get" % self.name, (lambda: True) if not block else (lambda: self.q.qsize() > 0))
        return self.q.get(block=False)

    def qsize(self):
        self.c.gate("%s.qsize" % self.name)
        return self.q.qsize()

    def empty(self):
        self.c.gate("%s.empty" % self.name)
        return self.q.empty()

    def _inspect(self):
        self.c.gate("inspect %s" % self.name)
        return list(self.q.queue)


class REvent:
    def __init__(self, ctrl, name="ev"):
        self.c = ctrl
        self.flag = False
        self.name = name

    def set(self):
        self.c.gate("%s.set" % self.name)
        self.flag = True

    def clear(self):
        self.c.gate("%s.clear" % self.name)
        self.flag = False

    def is_set(self):
        self.c.gate("%s.is_set" % self.name)
        return self.flag

    def wait(self, timeout=None):
        self.c.gate("%s.wait" % self.name, lambda: self.flag)
        return True


class RLock:
    def __init__(self, ctrl, reentrant=False, name="lock"):
        self.c = ctrl
        self.holder = None
        self.depth = 0
        self.reentrant = reentrant
        self.name = name

    def acquire(self, *a):
        me = self.c.me()
        self.c.gate("%s.acquire" % self.name, lambda: self.holder is None or (self.reentrant and self.holder == me))
        self.holder = me
        self.depth += 1
        return True

    def release(self):
        self.c.gate("%s.release" % self.name)
        self.depth -= 1
        if self.depth == 0:
            self.holder = None

    def __enter__(self):
        return self.acquire()

    def __exit__(self, *a):
        self.release()
        return False


class RManager:
    def __init__(self, ctx):
        self.ctx = ctx

    def Queue(self, maxsize=0):
        return self.ctx._mk_queue(maxsize)

    def list(self, init=()):
        return list(init)

    def __enter__(self):
        return self

    def __exit__(self, *a):
        return False


class RContext:
    """Replay-mode stand-in for the multiprocessing context / module globals."""

    def __init__(self, ctrl):
        self.c = ctrl
        self.n = collections.Counter()

    def _name(self, kind):
        k = self.n[kind]
        self.n[kind] += 1
        return "%s%d" % (kind, k)

    def _mk_queue(self, maxsize=0):
        return RQueue(self.c, maxsize, self._name("q"))

    def Manager(self):
        return RManager(self)

    def Queue(self, maxsize=0):
        return self._mk_queue(maxsize)

    def Lock(self):
        return RLock(self.c, False, self._name("lock"))

    def RLock(self):
        return RLock(self.c, True, self._name("lock"))

    def Event(self):
        return REvent(self.c, self._name("ev"))


class FakeThreading:
    """Stands in for the `threading` module global of the module under test: Event() is gated, the rest is real."""

    def __init__(self, ctx):
        self._ctx = ctx

    def Event(self):
        return self._ctx.Event()

    def __getattr__(self, n):
        return getattr(threading, n)


def gate_process_class(ctrl, cls):
    """Worker 'processes' run as controller-managed threads."""

    class Gated(cls):
        def start(self):
            name = getattr(self, "_vf_name", None) or ctrl.new_name(type(self).__name__)
            self._vf_name = name
            ctrl.gate("start %s" % name)
            ctrl.spawn(name, self.run)

        def join(self, timeout=None):
            ctrl.gate("join %s" % self._vf_name, lambda: ctrl.is_finished(self._vf_name))

        @property
        def exitcode(self):
            ctrl.gate("%s.exitcode" % self._vf_name)
            return 0 if ctrl.is_finished(self._vf_name) else None

        def is_alive(self):
            ctrl.gate("is_alive %s" % self._vf_name)
            return not ctrl.is_finished(self._vf_name)

    Gated.__name__ = cls.__name__
    Gated.__qualname__ = cls.__qualname__
    return Gated


def patch_thread_class(ctrl, cls, restore):
    """Threads created by the code under test (CMThread subclasses): gated start/join."""
    orig_start, orig_join = cls.__dict__.get("start"), cls.__dict__.get("join")

    def start(self):
        base = type(self).__name__
        self._vf_name = ctrl.new_name(base)
        ctrl.gate("start %s" % self._vf_name)
        ctrl.spawn(self._vf_name, self.run)

    def join(self, timeout=None):
        ctrl.gate("join %s" % self._vf_name, lambda: ctrl.is_finished(self._vf_name))

    cls.start = start
    cls.join = join

    def undo():
        for n, o in (("start", orig_start), ("join", orig_join)):
            if o is None:
                try:
                    delattr(cls, n)
                except AttributeError:
                    pass
            else:
                setattr(cls, n, o)

    restore.append(undo)


class GatedList(list):
    """pool.procs in replays: element reads and writes pass a gate (the model treats them as visible operations)."""

    def __init__(self, ctrl, items, name):
        super().__init__(items)
        self._c = ctrl
        self._n = name

    def __getitem__(self, i):
        if isinstance(i, int):
            self._c.gate("read %s[%d]" % (self._n, i))
        return super().__getitem__(i)

    def __setitem__(self, i, v):
        if isinstance(i, int):
            self._c.gate("write %s[%d]" % (self._n, i))
        super().__setitem__(i, v)

    def __iter__(self):
        i = 0
        while i < len(self):
            self._c.gate("read %s[%d]" % (self._n, i))
            yield super().__getitem__(i)
            i += 1


def gate_attributes(ctrl, obj, attrs, objname):
    """Shared plain attributes (e.g. pool._sending_work): reads and writes pass a gate (dynamic subclass, no repo change)."""
    cls = type(obj)
    ns = {}
    for a in attrs:
        def getter(self, a=a):
            ctrl.gate("read heap.%s.%s" % (objname, a))
            return self.__dict__[a]

        def setter(self, v, a=a):
            ctrl.gate("write heap.%s.%s" % (objname, a))
            self.__dict__[a] = v

        ns[a] = property(getter, setter)
    obj.__class__ = type(cls.__name__, (cls,), ns)


def run_replay(make, cfg, schedule, params, expect, faults=None):
    """make(cfg, ctx, mode) -> dict(scenario=fn, args=tuple, setup=callable(ctrl, restore) | None).
    schedule: list of {"thread", "op", "visible"}. Returns dict(reproduced, observed, log, ...)."""
    ctrl = Controller()
    ctx = RContext(ctrl)
    restore = []
    intr.REPLAY["params"] = dict(params)
    intr.REPLAY["asserts"] = []
    intr.REPLAY["mon"] = {}
    intr.REPLAY["faults"] = dict(faults or {})
    intr.REPLAY["ctrl"] = ctrl
    out = {"reproduced": False, "observed": None, "divergence": None}
    try:
        built = make(cfg, ctx, "replay", ctrl=ctrl, restore=restore)
        scenario, args = built["scenario"], built["args"]
        ctrl.spawn("main", lambda: scenario(*args))
        steps = [s for s in schedule if s.get("visible", True)]
        try:
            for s in steps:
                ctrl.grant(s["thread"], expect=s.get("op"))
            phase = ctrl.run_free()
        except Divergence as d:
            out["divergence"] = str(d)
            phase = "diverged"
        out["end"] = phase
        out["asserts"] = list(intr.REPLAY["asserts"])
        out["thread_errors"] = list(ctrl.errors)
        out["ops_executed"] = len(ctrl.log)
        out["monitors"] = dict(intr.REPLAY["mon"])
        out["finished_threads"] = sorted(ctrl.finished)
        out["log_tail"] = ["%s:%s" % x for x in ctrl.log[-12:]]
        if expect == "prefix":
            out["reproduced"] = out["divergence"] is None
            out["observed"] = "schedule prefix executed on the real code without divergence" if out["reproduced"] else out["divergence"]
        elif expect == "witness":
            out["reproduced"] = phase == "done" and not out["asserts"] and not ctrl.errors
            out["observed"] = "complete run, no assertion violated" if out["reproduced"] else "%s asserts=%s errors=%s" % (phase, out["asserts"], ctrl.errors)
        elif expect == "deadlock":
            out["reproduced"] = phase == "deadlock"
            out["observed"] = "deadlock: every live thread waits at a disabled operation: %s" % (
                {n: ctrl.waiting[n][0] for n in ctrl.waiting},) if phase == "deadlock" else phase
        else:
            bad = out["asserts"] or [e for e in ctrl.errors if e[0] == "main"]
            out["reproduced"] = bool(bad) and phase in ("done", "deadlock", "diverged")
            out["observed"] = "assertions violated: %s %s" % (out["asserts"], [e for e in ctrl.errors]) if bad else "no assertion violated (%s)" % phase
    finally:
        ctrl.shutdown()
        for u in restore:
            try:
                u()
            except Exception:
                pass
    return out
