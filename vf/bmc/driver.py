"""Builds the transition system of a scenario (fixpoint over exploration passes) and runs the four BMC queries."""
import time

import z3

from vf.bmc.vm import World, Explorer, VMError
from vf.bmc import bmc


def build(world, main_entry, main_args=(), max_passes=8, verbose=False):
    world.add_thread("main", main_entry, None, main_args)
    t0 = time.time()
    for p in range(max_passes):
        world.changed = False
        world.pass_no = p
        ex = Explorer(world)
        i = 0
        while i < len(world.thread_order):
            th = world.threads[world.thread_order[i]]
            ex.explore_thread(th)
            i += 1
        if verbose:
            print("   pass %d: threads=%d nodes=%d edges=%d vars=%d changed=%s (%.1fs)" % (
                p, len(world.thread_order), sum(len(t.node_list) for t in world.threads.values()),
                sum(len(t.edges) for t in world.threads.values()), len(world.statevars), world.changed, time.time() - t0), flush=True)
        if not world.changed:
            break
    else:
        raise VMError("exploration did not reach a fixpoint in %d passes" % max_passes)
    return bmc.System(world)


def check(S, K, which=("assert", "deadlock", "unwind", "witness"), timeout_s=600, por=True, sat_threads=1, seed=0,
          witness_extra=None, verbose=False, assert_extra=None, unwind_assume=None, context_bound=None):
    cons, info = bmc.unroll(S, K, por=por, context_bound=context_bound)
    qs = bmc.queries(S, info)
    res = {}
    for name in which:
        goal = qs[name]
        if name == "witness" and witness_extra is not None:
            goal = z3.And(goal, witness_extra)
        if name == "assert" and assert_extra is not None:
            goal = z3.Or(goal, assert_extra(S, info))
        r, model, dt = bmc.solve(cons, goal, timeout_s, sat_threads, seed)
        entry = {"result": r, "time_s": round(dt, 2), "K": K, "por_constraints": info["npor"]}
        if model is not None:
            entry["schedule"] = bmc.decode(S, info, model)
            entry["params"] = {n: model.eval(c, model_completion=True).as_signed_long() for n, (c, _, _) in S.w.params.items()}
            first = info["steps"][0]["st"] if info["steps"] else {}
            entry["faults"] = {n[len("fault."):-2]: z3.is_true(model.eval(v, model_completion=True)) for n, v in first.items() if n.startswith("fault.")}
            last = info["last"]
            entry["flags"] = [n for n in bmc.flag_names(S) if z3.is_true(model.eval(last[n], model_completion=True))]
        res[name] = entry
        if verbose:
            print("     %-8s %-7s %6.1fs (K=%d)" % (name, r, dt, K), flush=True)
    return res
