"""Primitive objects of the fake multiprocessing / threading world (DESIGN.md 3.3) - construction side.

The real constructors of the repository (FunctorPool.__init__, BaseFunctorWorker.__init__, FunctorMap.__init__, ...) are
executed natively with these stand-ins, so queue bounds, wid assignment etc. are *executed*, not modelled.
Their symbolic semantics (enabledness, effect on the state variables) live in vm.py (prim_call).
"""
import itertools

_counter = itertools.count()


class SimObj:
    kind = "obj"

    def __init__(self, hint=""):
        self.uid = next(_counter)
        self.name = "%s%d" % (hint or self.kind, self.uid)

    def __repr__(self):
        return "<%s %s>" % (type(self).__name__, self.name)


class SimQueue(SimObj):
    kind = "q"

    def __init__(self, maxsize=0, flavour="manager"):
        super().__init__()
        self.maxsize = maxsize if (maxsize is not None and maxsize > 0) else None
        self.flavour = flavour  # "manager" (atomic proxy calls) | "mp" (pipe + feeder thread)
        self.elem = None  # slot shape, set by the harness
        self.cap = None  # model capacity (number of slots), set by the harness

    # native stand-ins so that accidental native use fails loudly
    def put(self, *a, **k):
        raise RuntimeError("SimQueue used natively")

    def get(self, *a, **k):
        raise RuntimeError("SimQueue used natively")

    def qsize(self, *a, **k):
        raise RuntimeError("SimQueue used natively")

    def empty(self, *a, **k):
        raise RuntimeError("SimQueue used natively")


class SimEvent(SimObj):
    kind = "ev"

    def __init__(self, init=False):
        super().__init__()
        self.init = init

    def set(self):
        raise RuntimeError("SimEvent used natively")

    def clear(self):
        raise RuntimeError("SimEvent used natively")

    def is_set(self):
        raise RuntimeError("SimEvent used natively")

    def wait(self, *a):
        raise RuntimeError("SimEvent used natively")


class SimLock(SimObj):
    kind = "lock"

    def __init__(self, reentrant=False):
        super().__init__()
        self.reentrant = reentrant

    def acquire(self, *a):
        raise RuntimeError("SimLock used natively")

    def release(self):
        raise RuntimeError("SimLock used natively")


class SimValue(SimObj):
    kind = "val"

    def __init__(self, typecode="i", init=0):
        super().__init__()
        self.init = init


class SimManagerList(SimObj):
    """Manager().list(): every proxy call is one atomic step on the shared list (vm.mlist_op). Natively only construction-time
    use is allowed (extend / append of the initial content by the real constructor)."""
    kind = "mlist"

    def __init__(self, init=()):
        super().__init__()
        self.init = list(init)
        self.elem = None
        self.cap = None

    def extend(self, xs):
        self.init.extend(xs)

    def append(self, x):
        self.init.append(x)


class SimStorageFiles(SimObj):
    """The files of a TextFileStorage directory (vm.storage_file_op). A path and a handle are both represented by the number k
    of the file; a file is a sequence of complete lines (one line = one integer tag, an offset = a line number), a read handle
    has a position that is private to the process holding it, print(..., flush=True) appends one complete line."""
    kind = "files"

    def __init__(self, nfiles, maxlines, name="D"):
        super().__init__()
        self.name = name
        self.nfiles = nfiles
        self.maxlines = maxlines


class SimManager(SimObj):
    kind = "mgr"

    def __init__(self, ctx):
        super().__init__()
        self.ctx = ctx

    def Queue(self, maxsize=0):
        q = SimQueue(maxsize, "manager")
        self.ctx.created.append(q)
        return q

    def list(self, init=()):
        lst = SimManagerList(init)
        self.ctx.created.append(lst)
        return lst

    def __enter__(self):
        return self

    def __exit__(self, *a):
        return False


class SimContext:
    """Stand-in for a multiprocessing context (FunctorPool takes `context`)."""

    def __init__(self):
        self.created = []

    def Manager(self):
        m = SimManager(self)
        self.created.append(m)
        return m

    def Queue(self, maxsize=0):
        q = SimQueue(maxsize, "mp")
        self.created.append(q)
        return q

    def Lock(self):
        lk = SimLock(False)
        self.created.append(lk)
        return lk

    def RLock(self):
        lk = SimLock(True)
        self.created.append(lk)
        return lk

    def Event(self):
        e = SimEvent(False)
        self.created.append(e)
        return e

    def Value(self, typecode="i", init=0):
        v = SimValue(typecode, init)
        self.created.append(v)
        return v


class SimMmap(SimObj):
    """mmap.mmap over a SimFile: the read position lives in the mapping object, i.e. in process memory, and is therefore
    private to each process after a fork (vm.file_op)."""
    kind = "mm"

    def __init__(self, f):
        super().__init__()
        self.file = f
        self.name = f.name + "mm"

    def seek(self, *a):
        raise RuntimeError("SimMmap used natively")

    def readline(self, *a):
        raise RuntimeError("SimMmap used natively")

    def close(self, *a):
        raise RuntimeError("SimMmap used natively")


class SimFile(SimObj):
    """A file on disk with `offsets` = start offsets of its lines and `size` = its length, seen through OS-level open file
    descriptions: description 0 is the one the parent opened and every forked child inherits (ONE shared position);
    open() in process p creates p's own description. Which description a process' handle refers to and the position of
    every description are state variables (vm.file_op)."""
    kind = "file"

    def __init__(self, path, offsets, size, name="F"):
        super().__init__()
        self.name = name
        self.path = path
        self.offsets = list(offsets)
        self.size = size
        self.mm = SimMmap(self)

    def seek(self, *a):
        raise RuntimeError("SimFile used natively")

    def readline(self, *a):
        raise RuntimeError("SimFile used natively")

    def close(self, *a):
        raise RuntimeError("SimFile used natively")

    def fileno(self, *a):
        raise RuntimeError("SimFile used natively")
