"""Helpers shared by all Engine-S harness functions.

A harness function returns ``fail("<signature>")`` where the property is violated and ``ok()`` at its end.
 * symbolic run (CrossHair): fail() -> False (postcondition ``_`` fails => counterexample), unless the
   signature is in SUPPRESS (a listed known finding already reported in this run): then the path is
   treated as assumed-away so that *other* violations behind it are still searched for.
 * twin run (vacuity guard): fail() -> True, ok() -> False: the twin must be REFUTED, i.e. the end of the
   harness is reachable under the preconditions.
 * replay run (plain CPython on the unmodified modules): fail() records the signature.
"""
MODE = "sym"  # "sym" | "twin" | "replay"
SUPPRESS = frozenset()
P = {}  # fixed shape parameters of the current job
FAILS = []  # signatures recorded in replay mode


def fail(sig):
    if MODE == "replay":
        FAILS.append(sig)
        return False
    if MODE == "twin":
        return True
    if sig in SUPPRESS:
        return True
    return False


def ok():
    return MODE != "twin"


def param(name, default=None):
    return P.get(name, default)
