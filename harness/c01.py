"""C01 - ordered imap returns exactly map(f, data), once each, in input order (imap_unordered: chunk-wise permutation);
no result chunk is left in the queue. Engine C (same model as C02, assertion queries)."""
from vf.bmc import runner

META = {
    "explanation": "Bounded model checking with a symbolic schedule: the bytecode of FunctorPool.__enter__/__exit__/"
                   "_get_results/imap/imap_unordered, SendWorkThread.__init__/run (+ chunking), CMThread.*, "
                   "BaseFunctorWorker.run and Buffer.* as loaded from /repo is executed symbolically into one control-flow "
                   "automaton per thread (consumer, feeding thread, worker processes). Every access to pool._sending_work / "
                   "_data_cnt and every queue/event/lock/thread operation is a separate schedulable step. z3 decides for "
                   "all interleavings and all input lengths n<=N that the consumer's output equals [f(0..n-1)] (unordered: a "
                   "chunk-wise permutation) and that no payload-carrying item is left in the results queue.",
    "bounds": {"quick": {"workers": "1", "chunk_size": "1,2", "items": "<=1 for all schedules; 2 items in one chunk for all schedules with at most 2 pre-emptions",
                         "queue_bounds": "work 1.0 (default) / results None and 1", "api": "imap, imap_unordered"},
               "thorough": {"workers": "1,2", "chunk_size": "1,2", "items": "<=1 for all schedules; <=2 for all schedules with at most 2-4 pre-emptions, <=3 with at most 2 (context bound)",
                            "queue_bounds": "work {1.0, None}, results {None, 1}", "api": "imap, imap_unordered"}},
    "outside_bounds": ["more items/workers", "FactoryFunctorPool (worker replacement) - see C03", "generators that are not "
                       "fully consumed", "spawn/forkserver pickling", "join_timeout", "exceptions raised by the functor"],
    "assumptions": ["manager Queue calls are atomic FIFO operations; Event/Lock/Thread/Process primitives follow their "
                    "documented contract; a process is modelled as a thread with private attributes",
                    "items are only moved, never inspected by the pool (identity tag functor on item ids is the most general input)",
                    "z3's unsat is trusted; POR verdicts are cross-checked without POR on the smallest configuration"],
    "stubs": ["SimContext: manager queues, Lock, Event; threading.Event; Thread/Process start/join/exitcode"],
}


def configs(tier):
    out = []
    if tier == "quick":
        out.append({"kind": "pool", "workers": 1, "cs": 1, "nmax": 0, "api": "imap", "cross_check_por": True, "Ks": (30, 40)})
        out.append({"kind": "pool", "workers": 1, "cs": 1, "nmax": 1, "api": "imap"})
        out.append({"kind": "pool", "workers": 1, "cs": 1, "nmax": 1, "api": "imap_unordered"})
        out.append({"kind": "pool", "workers": 1, "cs": 1, "nmax": 1, "api": "imap", "rq": 1})
        # two items in one chunk, all schedules with at most 2 pre-emptions (context bound, stated in the evidence row)
        out.append({"kind": "pool", "workers": 1, "cs": 2, "nmax": 2, "api": "imap", "context_bound": 2, "Ks": (56, 68)})
    else:
        # n <= 1 in every shape of configuration (decided for ALL schedules)
        out.append({"kind": "pool", "workers": 1, "cs": 1, "nmax": 1, "api": "imap", "cross_check_por": True})
        out.append({"kind": "pool", "workers": 1, "cs": 1, "nmax": 1, "api": "imap_unordered"})
        out.append({"kind": "pool", "workers": 1, "cs": 1, "nmax": 1, "api": "imap", "rq": 1})
        out.append({"kind": "pool", "workers": 1, "cs": 1, "nmax": 1, "api": "imap_unordered", "rq": 1})
        out.append({"kind": "pool", "workers": 1, "cs": 1, "nmax": 1, "api": "imap", "wq": None})
        out.append({"kind": "pool", "workers": 1, "cs": 2, "nmax": 1, "api": "imap"})
        out.append({"kind": "pool", "workers": 2, "cs": 1, "nmax": 1, "api": "imap", "Ks": (56, 68, 80)})
        # n <= 2: all schedules with at most 2 pre-emptions (context-bounded; stated in the evidence)
        out.append({"kind": "pool", "workers": 1, "cs": 1, "nmax": 2, "api": "imap", "context_bound": 2, "Ks": (72, 86, 100)})
        out.append({"kind": "pool", "workers": 1, "cs": 2, "nmax": 2, "api": "imap", "context_bound": 2, "Ks": (56, 68, 80)})
        out.append({"kind": "pool", "workers": 1, "cs": 1, "nmax": 2, "api": "imap", "rq": 1, "context_bound": 2, "Ks": (72, 86, 100)})
        out.append({"kind": "pool", "workers": 1, "cs": 1, "nmax": 2, "api": "imap_unordered", "context_bound": 3, "Ks": (72, 86)})
        out.append({"kind": "pool", "workers": 1, "cs": 1, "nmax": 2, "api": "imap", "context_bound": 4, "Ks": (72, 86)})
        out.append({"kind": "pool", "workers": 2, "cs": 1, "nmax": 2, "api": "imap", "context_bound": 2, "Ks": (84, 100)})
        out.append({"kind": "pool", "workers": 1, "cs": 1, "nmax": 3, "api": "imap", "context_bound": 2, "Ks": (96, 112)})
    return out


def ks(tier):
    return (40, 50, 60) if tier == "quick" else (50, 60, 72)


def run(tier, seed):
    return runner.run_property("C01", tier, seed, "harness.pools_common", configs(tier), ("assert",), ks(tier),
                               900 if tier == "quick" else 1200, META, wall_limit=1700 if tier == "quick" else 5400)
