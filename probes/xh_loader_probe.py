import ast, sys, importlib.abc, importlib.util, os
REPO = "/repo"
class AssocDict:
    def __init__(self): self.ks=[]; self.vs=[]
    def _find(self,k):
        for i,kk in enumerate(self.ks):
            if kk == k: return i
        return -1
    def __contains__(self,k): return self._find(k) >= 0
    def __getitem__(self,k):
        i=self._find(k)
        if i<0: raise KeyError(k)
        return self.vs[i]
    def __setitem__(self,k,v):
        i=self._find(k)
        if i<0: self.ks.append(k); self.vs.append(v)
        else: self.vs[i]=v
    def __delitem__(self,k):
        i=self._find(k)
        if i<0: raise KeyError(k)
        del self.ks[i]; del self.vs[i]
    def __len__(self): return len(self.ks)
    def keys(self): return list(self.ks)
class Rewrite(ast.NodeTransformer):
    def __init__(self, dicts): self.dicts = dicts
    def visit_Raise(self, node):
        self.generic_visit(node)
        if isinstance(node.exc, ast.Call):
            node.exc.args = [ast.copy_location(ast.Constant("<msg>"), a) if isinstance(a, ast.JoinedStr) or (isinstance(a, ast.Call) and isinstance(a.func, ast.Attribute) and a.func.attr == 'format' and isinstance(a.func.value, ast.Constant)) else a for a in node.exc.args]
        return node
    def visit_Dict(self, node):
        if self.dicts and not node.keys:
            return ast.copy_location(ast.Call(ast.Name('vf_AssocDict_', ast.Load()), [], []), node)
        return self.generic_visit(node)
class Finder(importlib.abc.MetaPathFinder, importlib.abc.Loader):
    def find_spec(self, name, path, target=None):
        if name != "windpyutils" and not name.startswith("windpyutils."): return None
        base = os.path.join(REPO, *name.split("."))
        if os.path.isdir(base): return importlib.util.spec_from_loader(name, self, origin=base + "/__init__.py", is_package=True)
        if os.path.exists(base + ".py"): return importlib.util.spec_from_loader(name, self, origin=base + ".py")
        return None
    def exec_module(self, module):
        path = module.__spec__.origin
        if module.__spec__.submodule_search_locations is not None: module.__path__ = [os.path.dirname(path)]
        src = open(path).read(); tree = ast.parse(src, path)
        tree = Rewrite(dicts=path.endswith("structures/caches.py")).visit(tree); ast.fix_missing_locations(tree)
        module.__dict__['vf_AssocDict_'] = AssocDict
        module.__file__ = path
        exec(compile(tree, path, "exec"), module.__dict__)
sys.meta_path.insert(0, Finder())
