"""C10 - SpanSet: construction, operators and predicates equal their membership-based definitions for every
ordered pair of the four relations.

Spans are pairs of unbounded symbolic numbers with start <= end. One job fixes (relation of A, relation of B, |A|, |B|,
observable group); all span ends are symbolic. Reference model (independent, 20 lines): membership = existential scan
with the relation; construction keeps x iff x is not already in the set built so far; operators = exact-de-duplicated
spans of chain(A, B) satisfying the formula; predicates = their quantified definitions.
"""
from windpyutils.structures.span_set import (SpanSet, SpanSetExactEqRelation, SpanSetPartOfEqRelation,
                                             SpanSetIncludesEqRelation, SpanSetOverlapsEqRelation)

from vf import h
from vf.xh.engine import Job

META = {
    "level": "other",
    "explanation": "Bounded symbolic execution (CrossHair/z3) of the real SpanSet code: for each of the 4x4 relation "
                   "pairs, each |A|,|B|<=S and each operator/predicate, all span ends are unbounded solver variables "
                   "(overlapping, nested, repeated, touching spans are all paths decided by z3); results are compared "
                   "with an independent evaluation of the defining membership formulas.",
    "bounds": {"quick": {"S": 2, "families": "ints"}, "thorough": {"S": "one operand with 3 spans, the other <=1 for &,|,-,^,<= and 2 for &,^,<= (3x3 not included: a single job needs > 15 min); 2 for the rest", "families": "ints, reals (S=2)"}},
    "outside_bounds": ["more spans per operand than S", "spans with start > end", "NaN/inf ends",
                       "user-defined relations other than the four shipped ones"],
    "assumptions": ["floats are modelled as finite reals (exact for comparisons)",
                    "CrossHair 'Confirmed over all paths' / z3 unsat are trusted"],
    "stubs": [],
    "functions": ["windpyutils/structures/span_set.py:SpanSet.%s" % m for m in
                  ["__init__", "__len__", "__iter__", "__contains__", "__le__", "__lt__", "__eq__", "__ne__", "__ge__",
                   "__gt__", "__and__", "__or__", "__sub__", "__xor__", "isdisjoint", "issubset", "issuperset"]] +
                 ["windpyutils/structures/span_set.py:SpanSet%sEqRelation.__call__" % r for r in
                  ["Exact", "PartOf", "Includes", "Overlaps"]],
}

RELS = {"exact": SpanSetExactEqRelation, "partof": SpanSetPartOfEqRelation, "includes": SpanSetIncludesEqRelation,
        "overlaps": SpanSetOverlapsEqRelation}


def _rel(name, xs, xe, ys, ye):
    if name == "exact":
        return xs == ys and xe == ye
    if name == "partof":
        return ys <= xs and xe <= ye
    if name == "includes":
        return xs <= ys and ye <= xe
    return xe >= ys and ye >= xs


def _member(name, spans, x):
    for y in spans:
        if _rel(name, x[0], x[1], y[0], y[1]):
            return True
    return False


def _build(name, spans):
    kept = []
    for x in spans:
        if not _member(name, kept, x):
            kept.append(x)
    return kept


def _same_spans(got, exp, tag):
    """got (from the implementation) and exp (model) as duplicate-free sets of spans."""
    if len(got) == len(exp):
        same = True
        for g, e in zip(got, exp):
            if g[0] is not e[0] or g[1] is not e[1]:
                same = False
                break
        if same:
            return None
    for i in range(len(got)):
        for j in range(i + 1, len(got)):
            if got[i][0] == got[j][0] and got[i][1] == got[j][1]:
                return h.fail(tag + ":duplicate-span")
    for g in got:
        if not _member("exact", exp, g):
            return h.fail(tag + ":extra-span")
    for e in exp:
        if not _member("exact", got, e):
            return h.fail(tag + ":missing-span")
    return None


def _ops(a, b):
    ra, rb = h.P["ra"], h.P["rb"]
    na, nb = h.P["na"], h.P["nb"]
    obs = h.P["obs"]
    a = a[:na]
    b = b[:nb]
    A = SpanSet(list(a), eq_relation=RELS[ra]())
    B = SpanSet(list(b), eq_relation=RELS[rb]())
    ka = _build(ra, a)
    kb = _build(rb, b)
    bad = _same_spans(list(A), ka, "construct-A")
    if bad is not None:
        return bad
    bad = _same_spans(list(B), kb, "construct-B")
    if bad is not None:
        return bad
    inA = lambda x: _member(ra, ka, x)  # noqa
    inB = lambda x: _member(rb, kb, x)  # noqa
    chain = ka + kb
    if obs in ("and", "or", "sub", "xor"):
        if obs == "and":
            res = A & B
            exp = [x for x in chain if inA(x) and inB(x)]
        elif obs == "or":
            res = A | B
            exp = [x for x in chain if inA(x) or inB(x)]
        elif obs == "sub":
            res = A - B
            exp = [x for x in chain if inA(x) and not inB(x)]
        else:
            res = A ^ B
            exp = [x for x in chain if inA(x) != inB(x)]
        exp = _build("exact", exp)
        got = list(res)
        if len(res) != len(got):
            return h.fail(obs + ":len")
        bad = _same_spans(got, exp, obs)
        if bad is not None:
            return bad
        return h.ok()
    le = True
    for x in ka:
        if not inB(x):
            le = False
            break
    ge = True
    for x in kb:
        if not inA(x):
            ge = False
            break
    if obs == "le":
        if (A <= B) != le:
            return h.fail("le:wrong")
        if A.issubset(B) != le:
            return h.fail("issubset:wrong")
    elif obs == "ge":
        if (A >= B) != ge:
            return h.fail("ge:wrong")
        if A.issuperset(B) != ge:
            return h.fail("issuperset:wrong")
    elif obs == "eq":
        if (A == B) != (le and ge):
            return h.fail("eq:wrong")
        if (A != B) != (not (le and ge)):
            return h.fail("ne:wrong")
    elif obs == "lt":
        if (A < B) != (le and not ge):
            return h.fail("lt:wrong")
    elif obs == "gt":
        if (A > B) != (ge and not le):
            return h.fail("gt:wrong")
    elif obs == "isdisjoint":
        dis = True
        for x in kb:
            if inA(x):
                dis = False
                break
        if A.isdisjoint(B) != dis:
            return h.fail("isdisjoint:wrong")
        if A.isdisjoint(list(b)) != (not any(inA(x) for x in b)):
            return h.fail("isdisjoint-iterable:wrong")
    return h.ok()


def _construct(a):
    r = h.P["ra"]
    n = h.P["na"]
    form = h.P["form"]
    a = a[:n]
    exp = _build(r, a)
    starts = [x[0] for x in a]
    ends = [x[1] for x in a]
    if form == "pairs":
        S = SpanSet(list(a), eq_relation=RELS[r]())
    elif form == "generator":
        S = SpanSet((x for x in a), eq_relation=RELS[r]())
    elif form == "lists":
        S = SpanSet(starts, ends, eq_relation=RELS[r]())
    else:  # force_no_dup_check: everything is kept as given (documented contract of the flag)
        S = SpanSet(starts, ends, force_no_dup_check=True, eq_relation=RELS[r]())
        exp = list(a)
    got = list(S)
    if len(S) != len(got):
        return h.fail("construct:len")
    if len(got) != len(exp):
        return h.fail("construct-%s:count" % form)
    for g, e in zip(got, exp):  # construction order is the input order of the kept spans
        if not (g[0] == e[0] and g[1] == e[1]):
            return h.fail("construct-%s:content" % form)
    # membership of every input span and of a probe agrees with the definition
    for x in a:
        if (x in S) != _member(r, exp, x):
            return h.fail("contains:wrong")
    return h.ok()


def ops_int(a0s: int, a0e: int, a1s: int, a1e: int, a2s: int, a2e: int,
            b0s: int, b0e: int, b1s: int, b1e: int, b2s: int, b2e: int) -> bool:
    """
    pre: a0s <= a0e and a1s <= a1e and a2s <= a2e
    pre: b0s <= b0e and b1s <= b1e and b2s <= b2e
    post: _
    """
    return _ops([(a0s, a0e), (a1s, a1e), (a2s, a2e)], [(b0s, b0e), (b1s, b1e), (b2s, b2e)])


def ops_real(a0s: float, a0e: float, a1s: float, a1e: float, a2s: float, a2e: float,
             b0s: float, b0e: float, b1s: float, b1e: float, b2s: float, b2e: float) -> bool:
    """
    pre: a0s <= a0e and a1s <= a1e and a2s <= a2e
    pre: b0s <= b0e and b1s <= b1e and b2s <= b2e
    post: _
    """
    return _ops([(a0s, a0e), (a1s, a1e), (a2s, a2e)], [(b0s, b0e), (b1s, b1e), (b2s, b2e)])


def construct_int(a0s: int, a0e: int, a1s: int, a1e: int, a2s: int, a2e: int, a3s: int, a3e: int) -> bool:
    """
    pre: a0s <= a0e and a1s <= a1e and a2s <= a2e and a3s <= a3e
    post: _
    """
    return _construct([(a0s, a0e), (a1s, a1e), (a2s, a2e), (a3s, a3e)])


def contains_int(a0s: int, a0e: int, a1s: int, a1e: int, a2s: int, a2e: int, ps: int, pe: int) -> bool:
    """
    pre: a0s <= a0e and a1s <= a1e and a2s <= a2e and ps <= pe
    post: _
    """
    r = h.P["ra"]
    n = h.P["na"]
    a = [(a0s, a0e), (a1s, a1e), (a2s, a2e)][:n]
    S = SpanSet(list(a), eq_relation=RELS[r]())
    if ((ps, pe) in S) != _member(r, _build(r, a), (ps, pe)):
        return h.fail("contains-probe:wrong")
    return h.ok()


OBS = ["and", "or", "sub", "xor", "le", "ge", "eq", "lt", "gt", "isdisjoint"]


def jobs(tier):
    out = []
    T = 1200
    S = 2
    for ra in RELS:
        for na in range(0, 5 if tier == "thorough" else 4):
            for form in ("pairs", "generator", "lists", "nodup"):
                out.append(Job("C10", "harness.c10", "construct_int", {"ra": ra, "na": na, "form": form}, timeout=T,
                               name="construct[%s,%s,n=%d]" % (ra, form, na)))
        for na in range(0, 4):
            out.append(Job("C10", "harness.c10", "contains_int", {"ra": ra, "na": na}, timeout=T,
                           name="contains[%s,n=%d]" % (ra, na)))
    for ra in RELS:
        for rb in RELS:
            for na in range(0, S + 1):
                for nb in range(0, S + 1):
                    for obs in OBS:
                        out.append(Job("C10", "harness.c10", "ops_int", {"ra": ra, "rb": rb, "na": na, "nb": nb, "obs": obs},
                                       timeout=T, name="ops[%s,%s,%d,%d,%s]" % (ra, rb, na, nb, obs)))
    if tier == "thorough":
        for ra in RELS:
            for rb in RELS:
                for (na, nb) in ((3, 1), (1, 3), (3, 2), (2, 3), (3, 0), (0, 3)):
                    for obs in (("and", "or", "sub", "xor", "le") if min(na, nb) <= 1 else ("and", "xor", "le")):
                        out.append(Job("C10", "harness.c10", "ops_int", {"ra": ra, "rb": rb, "na": na, "nb": nb, "obs": obs},
                                       timeout=2400, name="ops[%s,%s,%d,%d,%s]" % (ra, rb, na, nb, obs)))
                for na in range(1, 3):
                    for nb in range(1, 3):
                        for obs in OBS:
                            out.append(Job("C10", "harness.c10", "ops_real", {"ra": ra, "rb": rb, "na": na, "nb": nb, "obs": obs},
                                           timeout=T, name="ops_real[%s,%s,%d,%d,%s]" % (ra, rb, na, nb, obs)))
    return out
