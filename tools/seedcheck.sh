#!/bin/bash
# usage: seedcheck.sh <seed_dir> <PROPERTY_ID> <name> "<test files>"
# 1. confirms the seeded change in a scratch worktree (demo passes without / fails with the change, tests pass with it)
# 2. copies it to /verif/seeded/<ID>-<name>/
# 3. applies it to /repo, runs the quick check, undoes it; appends the outcome to /verif/seeded/RESULTS.txt
set -u
SD="$1"; ID="$2"; NAME="$3"; TESTS="${4:-}"; TIER="${5:-quick}"
WT=/tmp/wt_verify_$$
git -C /repo worktree add -q "$WT" HEAD || exit 2
trap 'git -C /repo worktree remove --force "$WT" >/dev/null 2>&1' EXIT
cp "$SD/demo.py" "$WT/demo_seed.py"
(cd "$WT" && timeout 120 /venv/bin/python demo_seed.py >/tmp/seed_demo_clean.log 2>&1); RC_CLEAN=$?
git -C "$WT" apply "$SD/patch.diff" || { echo "$ID $NAME: patch does not apply"; exit 2; }
(cd "$WT" && timeout 120 /venv/bin/python demo_seed.py >/tmp/seed_demo_mut.log 2>&1); RC_MUT=$?
TESTS_OK=skipped
if [ -n "$TESTS" ]; then
  (cd "$WT" && timeout 1500 /venv/bin/python -m pytest -q -p no:cacheprovider $TESTS >/tmp/seed_tests.log 2>&1) && TESTS_OK=pass || TESTS_OK=FAIL
fi
echo "$ID $NAME: demo clean rc=$RC_CLEAN, demo with change rc=$RC_MUT, tests with change: $TESTS_OK ($(tail -1 /tmp/seed_tests.log 2>/dev/null))"
if [ "$RC_CLEAN" != "0" ] || [ "$RC_MUT" = "0" ] || [ "$TESTS_OK" = "FAIL" ]; then echo "$ID $NAME: NOT CONFIRMED - dropped"; exit 3; fi
DEST=/verif/seeded/$ID-$NAME
mkdir -p "$DEST"; cp "$SD/patch.diff" "$DEST/patch.diff"; cp "$SD/demo.py" "$DEST/demo.py"
# detection
git -C /repo status --short | grep -q . && { echo "/repo not clean"; exit 2; }
git -C /repo apply "$SD/patch.diff" || exit 2
T0=$(date +%s)
(cd /verif && ./vcheck run "$ID" --tier "$TIER" --quiet > "$DEST/check_output_$TIER.txt" 2>&1); RC=$?
cp "$DEST/check_output_$TIER.txt" "$DEST/check_output.txt"
T1=$(date +%s)
git -C /repo checkout -- .
NV=$(grep -c '^VIOLATION' "$DEST/check_output.txt")
FIRST=$(grep -A1 '^VIOLATION' "$DEST/check_output.txt" | sed -n 2p | cut -c1-300)
python3 - "$SD/meta.json" "$DEST/meta.json" "$ID" "$RC" "$NV" "$((T1-T0))" "$RC_CLEAN" "$RC_MUT" "$TESTS_OK" "$TESTS" "$TIER" <<'PY'
import json,sys
src,dst,pid,rc,nv,secs,rcc,rcm,tok,tests,tier=sys.argv[1:]
try: m=json.load(open(dst))
except Exception:
    try: m=json.load(open(src))
    except Exception: m={}
m.update({"property":pid,"confirmed":{"demo_exit_unchanged":int(rcc),"demo_exit_with_change":int(rcm),"existing_tests_with_change":tok,"tests_command":"/venv/bin/python -m pytest -q -p no:cacheprovider "+tests},
 ("detection" if tier=="quick" else "detection_"+tier):{"command":"./vcheck run %s --tier %s --quiet"%(pid,tier),"exit_code":int(rc),"violation_lines":int(nv),"seconds":int(secs),"detected":int(rc)==1 and int(nv)>0}})
json.dump(m,open(dst,"w"),indent=1)
PY
echo "$ID $NAME [$TIER]: check exit=$RC violations=$NV in $((T1-T0))s | $FIRST" | tee -a /verif/seeded/RESULTS.txt
