"""C15 - reorder buffers emit each item once in serial order; ring buffer keeps the last N.

Buffer / PrintBuffer: the serials 0..n-1 (n fixed per job) arrive in a SYMBOLIC permutation (n symbolic positions,
pairwise distinct), with a symbolic Boolean per arrival for "drain now" (Buffer) and a flush()/clear() at a symbolic
point. Payloads are concrete tags named after the arrival index (payloads are never inspected by the code).
After every step: emitted so far == payloads of serials 0..m-1 in order (nothing twice, nothing early),
waiting_for == m, len == number held back. The dictionaries inside the buffers are the hash-free AssocDict stub.
CircularBuffer(c): c fixed per job; k puts (k symbolic), a clear at a symbolic position, then one more
put / clear / index with symbolic index; oracle = tail of the put history since the last clear.
"""
from windpyutils.buffers import Buffer, PrintBuffer
from windpyutils.structures.circular_buffer import CircularBuffer

from vf import h
from vf.xh.engine import Job

ASSOC = ("windpyutils/buffers.py",)

META = {
    "level": "other",
    "explanation": "Bounded symbolic execution (CrossHair/z3) of the real Buffer, PrintBuffer and CircularBuffer code: "
                   "the arrival permutation, the drain points, the flush/clear point, the number of puts and the probed "
                   "index are solver variables; after every step the emitted prefix, waiting_for and len are compared "
                   "with the definition (all n! arrival orders x all drain choices are covered symbolically).",
    "bounds": {"quick": {"n": "<=4 (all permutations x all drain vectors x all flush/clear positions)", "ring_capacity": "<=4", "puts": "<=2c+1"},
               "thorough": {"n": "<=5 complete; PrintBuffer also n=6 (all 720 arrival orders, no flush/clear)", "ring_capacity": "<=6", "puts": "<=2c+1"}},
    "outside_bounds": ["more than n items / larger capacities", "serial numbers that are not a permutation of 0..n-1 "
                       "(repeated serials overwrite by contract)", "payload contents (never inspected by the code)"],
    "assumptions": ["dict semantics of the buffers' internal dictionaries = AssocDict in symbolic runs; counterexamples "
                    "are replayed on the real dict", "CrossHair 'Confirmed over all paths' / z3 unsat are trusted"],
    "stubs": ["AssocDict replaces {} in windpyutils/buffers.py (symbolic runs only)",
              "list-backed writer object as PrintBuffer's file_out"],
    "functions": ["windpyutils/buffers.py:Buffer.%s" % m for m in
                  ["__init__", "waiting_for", "__len__", "__call__", "__iter__", "flush"]] +
                 ["windpyutils/buffers.py:PrintBuffer.%s" % m for m in
                  ["__init__", "_print", "waiting_for", "print", "flush", "__len__", "clear"]] +
                 ["windpyutils/structures/circular_buffer.py:CircularBuffer.%s" % m for m in
                  ["__init__", "__len__", "__getitem__", "max_size", "put", "clear"]],
}


class Writer:
    def __init__(self):
        self.out = []

    def write(self, s):
        self.out.append(s)

    def flush(self):
        pass

    def __ch_deep_realize__(self, memo):
        # CrossHair's print() interception deep-copies its keyword arguments; the sink must stay the same object
        return self


def _distinct(ps):
    for i in range(len(ps)):
        for j in range(i + 1, len(ps)):
            if ps[i] == ps[j]:
                return False
    return True


def buffer_perm(p0: int, p1: int, p2: int, p3: int, p4: int, p5: int) -> bool:
    """
    pre: 0 <= p0 < max(1, h.P['n']) and 0 <= p1 < max(1, h.P['n']) and 0 <= p2 < max(1, h.P['n'])
    pre: 0 <= p3 < max(1, h.P['n']) and 0 <= p4 < max(1, h.P['n']) and 0 <= p5 < max(1, h.P['n'])
    post: _
    """
    n = h.P["n"]
    fpos = h.P["fpos"]  # position of a flush() (-1: none); fixed per job, like the drain points
    use_flush = fpos >= 0
    ps = [p0, p1, p2, p3, p4, p5][:n]
    ds = h.P["drains"]
    if not _distinct(ps):
        return True  # not a permutation: outside the property's domain
    b = Buffer()
    arrived = [None] * n  # serial -> payload (model)
    m = 0  # emitted so far (model)
    held = 0
    emitted = []
    for t in range(n):
        if use_flush and fpos == t:
            b.flush()
            # documented: forgets everything and starts again at serial 0
            arrived = [None] * n
            m = 0
            held = 0
            emitted = []
            if b.waiting_for() != 0 or len(b) != 0:
                return h.fail("buffer:flush-does-not-reset")
        s = ps[t]
        payload = 1000 + t
        if s < m:
            # only possible after a flush: the serial was already generated in the new epoch -> documented AttributeError
            try:
                b(s, payload)
            except AttributeError:
                continue
            return h.fail("buffer:accepts-already-generated-serial")
        try:
            r = b(s, payload)
        except Exception as e:  # noqa
            return h.fail("buffer:call-raises-" + type(e).__name__)
        if r is not b:
            return h.fail("buffer:call-returns-other")
        if arrived[s] is None:
            held += 1
        arrived[s] = payload
        if ds[t]:
            got = list(b)
            exp = []
            while m < n and arrived[m] is not None:
                exp.append(arrived[m])
                m += 1
            held -= len(exp)
            if got != exp:
                return h.fail("buffer:drain-wrong-items")
            emitted.extend(got)
        if b.waiting_for() != m:
            return h.fail("buffer:waiting_for")
        if len(b) != held:
            return h.fail("buffer:len")
    if use_flush and fpos == n:
        b.flush()
        if b.waiting_for() != 0 or len(b) != 0 or list(b) != []:
            return h.fail("buffer:flush-does-not-reset")
        return h.ok()
    got = list(b)
    exp = []
    while m < n and arrived[m] is not None:
        exp.append(arrived[m])
        m += 1
    if got != exp:
        return h.fail("buffer:final-drain-wrong-items")
    emitted.extend(got)
    if b.waiting_for() != m or len(b) != held - len(exp):
        return h.fail("buffer:final-counters")
    if not use_flush:
        # the property itself: every item exactly once, in ascending serial order
        if m != n or len(emitted) != n:
            return h.fail("buffer:not-all-emitted")
        for s in range(n):
            if emitted[s] != arrived[s]:
                return h.fail("buffer:order")
    return h.ok()


def printbuffer_perm(p0: int, p1: int, p2: int, p3: int, p4: int, p5: int) -> bool:
    """
    pre: 0 <= p0 < max(1, h.P['n']) and 0 <= p1 < max(1, h.P['n']) and 0 <= p2 < max(1, h.P['n'])
    pre: 0 <= p3 < max(1, h.P['n']) and 0 <= p4 < max(1, h.P['n']) and 0 <= p5 < max(1, h.P['n'])
    post: _
    """
    n = h.P["n"]
    special = h.P["special"]  # "none" | "flush" | "clear"
    fpos = h.P["fpos"]
    ps = [p0, p1, p2, p3, p4, p5][:n]
    if not _distinct(ps):
        return True
    w = Writer()
    end = h.P.get("end", "\n")
    pb = PrintBuffer(w, end=end)
    held = {}  # concrete model keyed by serial position in a list
    arrived = [None] * (n + 1)
    m = 0
    nheld = 0
    expected_out = []
    for t in range(n + 1):
        if fpos == t:
            if special == "flush":
                pb.flush()
                # prints everything held in ascending serial order; waiting_for = biggest held serial + 1
                top = m - 1
                for s in range(n):
                    if arrived[s] is not None:
                        expected_out.append(arrived[s])
                        arrived[s] = None
                        top = s
                m = top + 1
                nheld = 0
            else:
                pb.clear()
                for s in range(n):
                    arrived[s] = None
                m = 0
                nheld = 0
            if pb.waiting_for != m:
                return h.fail("printbuffer:%s-waiting_for" % special)
            if len(pb) != 0:
                return h.fail("printbuffer:%s-len" % special)
            if w.out != _rendered(expected_out, end):
                return h.fail("printbuffer:%s-output" % special)
        if t == n:
            break
        s = ps[t]
        payload = "a%d" % t
        r = pb.print(s, payload)
        if s == m:
            expected_out.append(payload)
            m += 1
            while m < n and arrived[m] is not None:
                expected_out.append(arrived[m])
                arrived[m] = None
                nheld -= 1
                m += 1
            if r is not True:
                return h.fail("printbuffer:print-returns-false-when-printed")
        else:
            if s < n and s >= 0:
                if arrived[s] is None:
                    nheld += 1
                arrived[s] = payload
            if r is not False:
                return h.fail("printbuffer:print-returns-true-when-buffered")
        if w.out != _rendered(expected_out, end):
            return h.fail("printbuffer:output")
        if pb.waiting_for != m:
            return h.fail("printbuffer:waiting_for")
        if len(pb) != nheld:
            return h.fail("printbuffer:len")
    if special == "none":
        if w.out != _rendered(["a%d" % _index_of(ps, s) for s in range(n)], end):
            return h.fail("printbuffer:not-serial-order")
    return h.ok()


def _index_of(ps, s):
    for t in range(len(ps)):
        if ps[t] == s:
            return t
    return -1


def _rendered(items, end):
    out = []
    for x in items:
        out.append(x)
        out.append(end)
    return out


def ring(k: int, cpos: int, i: int, x: int) -> bool:
    """
    pre: 0 <= k <= 2 * h.P['c'] + 1
    pre: -1 <= cpos <= k
    post: _
    """
    c = h.P["c"]
    op = h.P["op"]
    cb = CircularBuffer(c)
    hist = []
    for t in range(k):
        if cpos == t:
            cb.clear()
            hist = []
        cb.put(t)
        hist.append(t)
    if cpos == k:
        cb.clear()
        hist = []
    if op == "put":
        cb.put(x)
        hist.append(x)
    elif op == "clear":
        cb.clear()
        hist = []
    tail = hist[-c:] if len(hist) > 0 else []
    if len(cb) != len(tail):
        return h.fail("ring:len")
    if cb.max_size != c:
        return h.fail("ring:max_size")
    got = []
    for v in cb:  # Sequence.__iter__: indexes until IndexError
        got.append(v)
        if len(got) > c + 1:
            return h.fail("ring:iter-too-long")
    if len(got) != len(tail):
        return h.fail("ring:iter-len")
    for a, b in zip(got, tail):
        if not (a == b):
            return h.fail("ring:content")
    try:
        v = cb[i]
    except IndexError:
        if 0 <= i < len(tail):
            return h.fail("ring:indexerror-inside")
        return h.ok()
    if not (0 <= i < len(tail)):
        return h.fail("ring:accepts-index-outside")
    if not (v == tail[i]):
        return h.fail("ring:getitem")
    return h.ok()


def ring_bad_size(c: int) -> bool:
    """
    pre: c <= 0
    post: _
    """
    try:
        CircularBuffer(c)
    except AssertionError:
        return h.ok()
    return h.fail("ring:accepts-nonpositive-capacity")


def _bits(n):
    out = [[]]
    for _ in range(n):
        out = [o + [b] for o in out for b in (False, True)]
    return out


def jobs(tier):
    N, C = (4, 4) if tier == "quick" else (5, 6)
    out = []
    T = 1800
    for n in range(0, N + 1):
        for ds in _bits(n):
            dname = "".join("d" if d else "-" for d in ds) or "."
            for fpos in range(-1, n + 1):
                out.append(Job("C15", "harness.c15", "buffer_perm", {"n": n, "drains": ds, "fpos": fpos}, timeout=T,
                               assoc=ASSOC, name="buffer[n=%d,drains=%s,flush@%d]" % (n, dname, fpos)))
        out.append(Job("C15", "harness.c15", "printbuffer_perm", {"n": n, "special": "none", "fpos": -1}, timeout=T,
                       assoc=ASSOC, name="printbuffer[n=%d,none]" % n))
        for special in ("flush", "clear"):
            for fpos in range(0, n + 1):
                out.append(Job("C15", "harness.c15", "printbuffer_perm", {"n": n, "special": special, "fpos": fpos},
                               timeout=T, assoc=ASSOC, name="printbuffer[n=%d,%s@%d]" % (n, special, fpos)))
    out.append(Job("C15", "harness.c15", "printbuffer_perm", {"n": 3, "special": "flush", "fpos": 2, "end": ";"}, timeout=T,
                   assoc=ASSOC, name="printbuffer[n=3,flush@2,end=;]"))
    if tier == "thorough":
        # n = 6: PrintBuffer only (720 arrival orders, *measured* 72 min); the Buffer jobs at n = 6 did not exhaust within 1 h
        out.append(Job("C15", "harness.c15", "printbuffer_perm", {"n": 6, "special": "none", "fpos": -1}, timeout=7200,
                       assoc=ASSOC, name="printbuffer[n=6,none]"))
    for c in range(1, C + 1):
        for op in ("put", "clear", "none"):
            out.append(Job("C15", "harness.c15", "ring", {"c": c, "op": op}, timeout=T, name="ring[c=%d,%s]" % (c, op)))
    out.append(Job("C15", "harness.c15", "ring_bad_size", {}, timeout=60, name="ring_bad_size"))
    return out
