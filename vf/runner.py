"""Property runner for Engine S checks: schedules jobs + vacuity twins, replays counterexamples, applies the
known-findings file, writes the evidence file, decides the exit code (DESIGN.md section 1)."""
import hashlib
import importlib
import json
import os
import subprocess
import sys
import time

from vf.xh.engine import Job, run_jobs

ROOT = os.path.dirname(os.path.dirname(os.path.abspath(__file__)))
EVID = os.path.join(ROOT, "evidence")
REPLAYS = os.path.join(ROOT, "replays")
FINDINGS = os.path.join(ROOT, "known_findings.json")


def load_findings(prop):
    if not os.path.exists(FINDINGS):
        return {}
    with open(FINDINGS) as f:
        data = json.load(f)
    return {e["signature"]: e for e in data.get("findings", []) if e.get("property") == prop}


def replay_concrete(spec, timeout=120, trace=False):
    """Run the replay in a fresh interpreter (unmodified modules). Returns the REPLAY-RESULT dict."""
    os.makedirs(REPLAYS, exist_ok=True)
    tmp = os.path.join(REPLAYS, ".tmp_%d_%d.json" % (os.getpid(), int(time.time() * 1e6) % 10 ** 9))
    with open(tmp, "w") as f:
        json.dump(spec, f)
    try:
        cmd = [sys.executable, "-m", "vf.replay", tmp] + (["--trace"] if trace else [])
        try:
            p = subprocess.run(cmd, cwd=ROOT, capture_output=True, text=True, timeout=timeout)
        except subprocess.TimeoutExpired:
            return {"reproduced": True, "signatures": ["replay-timeout"], "exception": None, "entered": []}
        for line in p.stdout.splitlines():
            if line.startswith("REPLAY-RESULT "):
                return json.loads(line[len("REPLAY-RESULT "):])
        return {"reproduced": False, "signatures": [], "exception": "replay crashed: " + p.stderr[-1500:],
                "entered": [], "crashed": True}
    finally:
        try:
            os.remove(tmp)
        except OSError:
            pass


def save_replay(prop, spec, observed):
    d = os.path.join(REPLAYS, prop)
    os.makedirs(d, exist_ok=True)
    body = dict(spec)
    body["property"] = prop
    body["observed"] = observed
    hsh = hashlib.sha256(json.dumps(body, sort_keys=True).encode()).hexdigest()[:12]
    path = os.path.join(d, hsh + ".json")
    with open(path, "w") as f:
        json.dump(body, f, indent=1, sort_keys=True)
    return path


def spec_of(job, args):
    return {"module": job.module, "fn": job.fn, "params": job.params, "args": args, "job": job.label(),
            "setup": job.setup}


class Outcome:
    def __init__(self, prop, tier):
        self.prop = prop
        self.tier = tier
        self.violations = []  # (replay path, signatures)
        self.known = []  # (signature, what)
        self.inconclusive = []
        self.harness_errors = []
        self.discharged = 0
        self.obligations = 0
        self.samples = []
        self.stats = {"paths": 0, "confirmed_paths": 0, "solver_calls": 0, "solver_time_s": 0.0, "jobs_cpu_wall_s": 0.0}
        self.loaded = {}
        self.entered = set()
        self.job_table = []
        self.twins_refuted = 0
        self.extra = {}

    def exit_code(self):
        if self.violations:
            return 1
        if self.harness_errors:
            return 2
        return 0


def _acc(out, r):
    out.stats["paths"] += r.get("paths", 0) or 0
    out.stats["confirmed_paths"] += r.get("confirmed_paths", 0) or 0
    out.stats["solver_calls"] += r.get("solver_calls", 0) or 0
    out.stats["solver_time_s"] += r.get("solver_time", 0.0) or 0.0
    out.stats["jobs_cpu_wall_s"] += r.get("wall", 0.0) or 0.0
    for k, v in (r.get("loaded") or {}).items():
        out.loaded[k] = v


def run_xh(prop, jobs, tier, out=None, verbose=True, max_rounds=6):
    """Run all jobs (+ twins). Returns Outcome."""
    out = out or Outcome(prop, tier)
    known = load_findings(prop)
    t0 = time.time()

    def prog(task, res):
        if verbose:
            job, mode, _ = task
            print("  [%s] %-8s %-60s %6.1fs paths=%s" % (mode, res["verdict"], job.label()[:60], res.get("wall", 0),
                                                      res.get("paths")), flush=True)

    tasks = [(j, "sym", ()) for j in jobs] + [(j, "twin", ()) for j in jobs]
    # longest first
    order = sorted(range(len(tasks)), key=lambda i: -tasks[i][0].timeout if tasks[i][1] == "sym" else 0)
    res_sorted = run_jobs([tasks[i] for i in order], progress=prog)
    results = [None] * len(tasks)
    for k, i in enumerate(order):
        results[i] = res_sorted[k]
    n = len(jobs)
    out.obligations += n
    reported_known = set()
    traced_keys = set()
    to_trace = []
    for idx, job in enumerate(jobs):
        r, tw = results[idx], results[n + idx]
        _acc(out, r)
        cp = out.stats["confirmed_paths"]
        _acc(out, tw)
        out.stats["confirmed_paths"] = cp  # paths of the vacuity twins are not counted as non-trivial cases
        row = {"job": job.label(), "verdict": r["verdict"], "paths": r.get("paths"), "wall_s": r.get("wall"),
               "solver_calls": r.get("solver_calls"), "twin": tw["verdict"]}
        out.job_table.append(row)
        # vacuity guard
        if tw["verdict"] == "REFUTED":
            out.twins_refuted += 1
            if len(out.samples) < 6 and tw.get("args") is not None:
                out.samples.append({"job": job.label(), "reachability_witness_args": tw["args"]})
            key = (job.fn, job.params.get("op"), job.params.get("kind"))
            if key not in traced_keys and len(traced_keys) < 32 and tw.get("args") is not None:
                traced_keys.add(key)
                to_trace.append(spec_of(job, tw["args"]))
        elif r["verdict"] != "REFUTED":
            # (a refuted main job proves reachability by its own replayed counterexample)
            out.harness_errors.append("vacuity twin of %s not refuted: %s %s" % (job.label(), tw["verdict"],
                                                                                 (tw.get("detail") or "")[-400:]))
            continue
        suppress = set()
        rounds = 0
        while True:
            if r["verdict"] == "CONFIRMED":
                out.discharged += 1
                break
            if r["verdict"] == "REFUTED" and len(out.violations) >= 25:
                out.extra["refuted_jobs_not_replayed_after_25_violations"] = out.extra.get("refuted_jobs_not_replayed_after_25_violations", 0) + 1
                break
            if r["verdict"] == "REFUTED":
                if r.get("args") is None:
                    out.harness_errors.append("counterexample of %s without arguments: %s" % (job.label(), r.get("detail")))
                    break
                spec = spec_of(job, r["args"])
                rr = replay_concrete(spec)
                if rr.get("crashed") or not rr["reproduced"]:
                    out.harness_errors.append("counterexample of %s does not reproduce on the real code: args=%s %s" % (
                        job.label(), json.dumps(r["args"]), rr.get("exception") or ""))
                    break
                sigs = rr["signatures"]
                if sigs and all(s in known for s in sigs):
                    for s in sigs:
                        if s not in reported_known:
                            reported_known.add(s)
                            out.known.append((s, known[s].get("what", "")))
                            print("KNOWN-FINDING: property=%s %s [%s] e.g. %s(%s)" % (
                                prop, known[s].get("what", s), s, job.fn, json.dumps(r["args"])), flush=True)
                    new = set(sigs) - suppress
                    if not new or rounds >= max_rounds:
                        out.inconclusive.append({"job": job.label(), "why": "known finding cannot be separated further"})
                        break
                    suppress |= new
                    rounds += 1
                    r = run_jobs([(job, "sym", tuple(sorted(suppress)))], progress=prog)[0]
                    _acc(out, r)
                    row["verdict"] = r["verdict"] + " (known findings assumed away: %s)" % ",".join(sorted(suppress))
                    continue
                path = save_replay(prop, spec, rr)
                out.violations.append((path, sigs))
                print("VIOLATION property=%s replay=%s" % (prop, path), flush=True)
                print("  harness=%s args=%s observed=%s %s" % (job.label(), json.dumps(r["args"]), sigs,
                                                               rr.get("exception") or ""), flush=True)
                break
            if r["verdict"] == "ERROR":
                out.harness_errors.append("job %s crashed: %s" % (job.label(), (r.get("detail") or "")[-1500:]))
                break
            out.inconclusive.append({"job": job.label(), "why": r["verdict"] + " " + (r.get("detail") or "") + " " +
                                     json.dumps(r.get("messages"))})
            print("INCONCLUSIVE property=%s job=%s (%s) - not counted as discharged" % (prop, job.label(), r["verdict"]),
                  flush=True)
            break
    if to_trace:
        # which functions of /repo did the witnesses actually enter (concrete replay with sys.monitoring)
        from concurrent.futures import ThreadPoolExecutor
        with ThreadPoolExecutor(8) as ex:
            for rr in ex.map(lambda sp: replay_concrete(sp, trace=True), to_trace):
                out.entered |= set(rr.get("entered") or [])
    out.stats["wall_s"] = round(time.time() - t0, 2)
    return out


def write_evidence(out, meta, wall, seed):
    os.makedirs(EVID, exist_ok=True)
    from vf.xh import loader
    files = {}
    for name, (rel, sha, rewritten) in sorted(out.loaded.items()):
        files[rel] = {"sha256": sha, "ast_rewritten_for_symbolic_run": rewritten}
    cov = {
        "explanation": meta.get("explanation", ""),
        "obligations": out.obligations,
        "discharged": out.discharged,
        "exhaustive": False,
        "rule": meta.get("rule", "a case = one execution path explored by the symbolic executor (a distinct sequence of "
                                 "solver-decided branch outcomes, hence distinct by construction); evaluations = all paths incl. "
                                 "vacuity twins; non-trivial = a path of a main job that reached the end of the harness and whose "
                                 "post-condition z3 confirmed (paths cut by a precondition/assumption are not counted). One "
                                 "obligation = one harness function with fixed shape parameters, discharged only if the path tree "
                                 "was exhausted with every path confirmed"),
        "samples": out.samples[:8] or [{"note": "no reachability witness captured"}],
        "evaluations": out.stats["paths"],
        "distinct_nontrivial": out.stats["confirmed_paths"],
        "paths_explored": out.stats["paths"],
        "confirmed_paths": out.stats["confirmed_paths"],
        "vacuity_twins_refuted": out.twins_refuted,
        "solver_queries": out.stats["solver_calls"],
        "solver_time_s": round(out.stats["solver_time_s"], 2),
        "bounds": meta.get("bounds", {}).get(out.tier, meta.get("bounds", {})),
        "outside_bounds": meta.get("outside_bounds", []),
        "stubs": meta.get("stubs", []),
        "files_encoded": files,
        "functions_entered": sorted(out.entered),
        "functions_encoded": meta.get("functions", []),
        "jobs": out.job_table,
        "inconclusive": out.inconclusive,
        "known_findings_reported": [{"signature": s, "what": w} for s, w in out.known],
        "harness_errors": out.harness_errors,
        "engine": meta.get("engine", "CrossHair 0.0.110 (z3 5.1) symbolic execution of the real modules loaded from /repo"),
    }
    cov.update(out.extra)
    ev = {
        "property_id": out.prop,
        "tier": out.tier,
        "seed": seed,
        "level": meta.get("level", "other"),
        "coverage": cov,
        "assumptions": meta.get("assumptions", []),
        "wall_s": round(wall, 2),
        "violations": len(out.violations),
    }
    path = os.path.join(EVID, out.prop + ".json")
    with open(path, "w") as f:
        json.dump(ev, f, indent=1)
    return path
