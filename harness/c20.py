"""C20 - TmpPool and FilePool leave nothing behind.

TmpPool: a history of L operations (L fixed per job) whose op-codes, path selectors and the position at which the
with-body raises are SYMBOLIC: 0 = create, 1 = remove(a listed path), 2 = remove(a listed path whose file was already
deleted on disk), 3 = flush, 4 = create "from a child" (same pool object; with the manager-list contract of the stub a
child's create is an atomic append, so interleavings of children reduce to merge orders, which the words cover).
After every step: returned paths pairwise distinct and existing, list(pool) == created-and-not-removed == the files
that exist among those ever created; after flush() and after leaving the context by any route none exists.
FilePool: symbolic subset of 3 paths, mode r / w, symbolic "body raises": inside the context every path maps to an open
handle, afterwards every handle ever opened is closed.
"""
import windpyutils.files as wf
from windpyutils.files import TmpPool, FilePool

from vf import h
from vf.xh.engine import Job
from vf.xh import symfs

META = {
    "level": "other",
    "explanation": "Bounded symbolic execution (CrossHair/z3) of the real TmpPool/FilePool code on the SymFS stub: the "
                   "operation codes of a history, the path selectors and the raise position are solver variables, so "
                   "every history of length L over create/remove/remove-missing/flush with every exception point is a "
                   "path; file existence and handle states are observed in the stub after every step.",
    "bounds": {"quick": {"history_length": "<=4"}, "thorough": {"history_length": "<=5"}},
    "outside_bounds": ["longer histories", "the real process boundary of multi_proc pools (the manager list is a stub "
                       "with the documented atomic shared-list contract)", "open() failing inside FilePool.open()",
                       "OS-level failures of os.remove other than FileNotFoundError"],
    "assumptions": ["SymFS models tempfile.NamedTemporaryFile(delete=False) (fresh distinct name, file exists), "
                    "os.remove and multiprocessing.Manager().list() as documented; counterexamples are replayed with the "
                    "real tempfile/os/multiprocessing", "CrossHair 'Confirmed over all paths' / z3 unsat are trusted"],
    "stubs": ["SymFS (tempfile, os.remove, multiprocessing.Manager, open in the namespace of windpyutils.files)"],
    "functions": ["windpyutils/files.py:TmpPool.%s" % m for m in
                  ["__init__", "__len__", "__getitem__", "__enter__", "__exit__", "create", "remove", "flush"]] +
                 ["windpyutils/files.py:FilePool.%s" % m for m in
                  ["__init__", "__enter__", "__exit__", "__iter__", "__len__", "__getitem__", "open", "close"]],
}


class Boom(Exception):
    pass


def _disk_remove(fs, p):
    if isinstance(fs, symfs.SymFS):
        del fs.files[p]
    else:
        import os
        os.remove(p)


def tmppool(o0: int, o1: int, o2: int, o3: int, o4: int, a0: int, a1: int, a2: int, a3: int, a4: int,
            raise_at: int) -> bool:
    """
    pre: 0 <= o0 <= 4 and 0 <= o1 <= 4 and 0 <= o2 <= 4 and 0 <= o3 <= 4 and 0 <= o4 <= 4
    pre: 0 <= a0 <= 2 and 0 <= a1 <= 2 and 0 <= a2 <= 2 and 0 <= a3 <= 2 and 0 <= a4 <= 2
    pre: -1 <= raise_at <= h.P['L']
    post: _
    """
    L = h.P["L"]
    multi = h.P["multi"]
    use_dir = h.P["dir"]
    ops = [o0, o1, o2, o3, o4][:L]
    sel = [a0, a1, a2, a3, a4][:L]
    fs = symfs.make_fs(wf, h.MODE)
    try:
        d = None
        if use_dir:
            d = fs.path("sub")
            if not isinstance(fs, symfs.SymFS):
                import os
                os.makedirs(d, exist_ok=True)
        created = []
        live = []
        pool = TmpPool(d, multi_proc=multi)
        verdict = None
        try:
            with pool:
                for t in range(L):
                    if raise_at == t:
                        raise Boom()
                    op = ops[t]
                    if op == 0 or op == 4:
                        p = pool.create()
                        if p in created:
                            verdict = h.fail("create:path-not-distinct")
                            break
                        if not fs.exists(p):
                            verdict = h.fail("create:file-does-not-exist")
                            break
                        if use_dir and not p.startswith(d):
                            verdict = h.fail("create:not-in-given-directory")
                            break
                        created.append(p)
                        live.append(p)
                    elif op == 1 or op == 2:
                        if not live:
                            continue
                        p = live[sel[t] % len(live)]
                        if op == 2:
                            _disk_remove(fs, p)
                        try:
                            pool.remove(p)
                        except Exception as e:  # noqa
                            verdict = h.fail("remove:raises-" + type(e).__name__)
                            break
                        live.remove(p)
                    elif op == 3:
                        pool.flush()
                        live = []
                    if list(pool) != live or len(pool) != len(live):
                        verdict = h.fail("pool-listing-differs-from-created-and-not-removed")
                        break
                    for q in created:
                        if fs.exists(q) != (q in live):
                            verdict = h.fail("disk-differs-from-listing")
                            break
                    if verdict is not None:
                        break
                if verdict is None and raise_at == L:
                    raise Boom()
        except Boom:
            pass
        if verdict is not None:
            return verdict
        for q in created:
            if fs.exists(q):
                return h.fail("file-left-behind-after-context")
        if isinstance(fs, symfs.SymFS) and multi:
            for m in fs.managers[1:]:
                if m.entered and not m.exited:
                    return h.fail("manager-not-shut-down")
        return h.ok()
    finally:
        fs.cleanup()


def filepool(u0: bool, u1: bool, u2: bool, boom: bool) -> bool:
    """
    post: _
    """
    mode = h.P["mode"]
    fs = symfs.make_fs(wf, h.MODE)
    try:
        names = ["f0", "f1", "f2"]
        paths = []
        for k, u in enumerate([u0, u1, u2]):
            if u:
                paths.append(fs.put(names[k], "x%d\n" % k) if mode == "r" else fs.path(names[k]))
        pool = FilePool(list(paths), mode)
        try:
            len(pool)
            return h.fail("filepool:usable-before-open")
        except RuntimeError:
            pass
        seen = []
        try:
            with pool as fp:
                if len(fp) != len(paths) or list(fp) != paths:
                    return h.fail("filepool:listing")
                for p in paths:
                    hd = fp[p]
                    if hd.closed:
                        return h.fail("filepool:handle-closed-inside-context")
                    seen.append(hd)
                    if mode == "r":
                        if hd.readline() != fs.content(p):
                            return h.fail("filepool:wrong-file")
                    else:
                        hd.write("y")
                try:
                    fp["nope"]
                    return h.fail("filepool:no-keyerror")
                except KeyError:
                    pass
                if boom:
                    raise Boom()
        except Boom:
            pass
        for hd in seen:
            if not hd.closed:
                return h.fail("filepool:handle-left-open")
        if isinstance(fs, symfs.SymFS) and fs.open_handles():
            return h.fail("filepool:some-opened-handle-left-open")
        return h.ok()
    finally:
        fs.cleanup()


def jobs(tier):
    out = []
    Lmax = 4 if tier == "quick" else 5
    for L in range(0, Lmax + 1):
        for multi in (False, True):
            for use_dir in (False, True):
                if L == Lmax and tier == "thorough" and (multi and use_dir):
                    continue
                out.append(Job("C20", "harness.c20", "tmppool", {"L": L, "multi": multi, "dir": use_dir}, timeout=1800,
                               name="tmppool[L=%d,multi=%s,dir=%s]" % (L, multi, use_dir)))
    for mode in ("r", "w"):
        out.append(Job("C20", "harness.c20", "filepool", {"mode": mode}, timeout=600, name="filepool[%s]" % mode))
    return out
