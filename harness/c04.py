"""C04 - worker lifecycle: begin first once, end last once (also when begin or the functor raises), until_all_ready waits
for every begin, quota kept, no worker left running after the pool context. Engine C with ghost monitors."""
import z3

from vf.bmc import runner
from harness import c01

META = dict(c01.META)
META["explanation"] = (
    "Bounded model checking with a symbolic schedule of the plain FunctorPool (bytecode of /repo) with harness workers whose "
    "begin / __call__ / end carry ghost monitors and may raise when the solver chooses so (fault Booleans). z3 decides over "
    "all interleavings, input lengths n<=N and fault choices: no item before begin() completed, none after end(), "
    "until_all_ready() returns only after every begin() completed, quota respected, and - as an invariant over final "
    "states - every terminated worker has begin_calls == end_calls == 1; after the pool context every worker terminated.")
META["bounds"] = {"quick": {"workers": "1", "items": "<=1", "faults": "begin raises / functor raises (solver's choice)", "quota": "none, 1"},
                  "thorough": {"workers": "1,2", "items": "<=1 all schedules; <=2 with at most 2 pre-emptions", "faults": "as quick", "quota": "none, 1"}}
META["outside_bounds"] = list(c01.META["outside_bounds"]) + [
    "FactoryFunctorPool (thorough tier): lifecycle of the initial and the replaced worker is decided only for schedules with "
    "at most 2 pre-emptions, one replacement, n <= 1",
    "in raising runs the call itself is not required to terminate (only the lifecycle is checked)"]


def extra_assert(S, info):
    """terminated  =>  begin_calls == end_calls == 1   (also when begin() or the functor raised)"""
    from vf.bmc.values import I
    last = info["last"]
    bad = []
    for t in S.threads:
        b = "mon.%s.begin_calls:i" % t.name
        e = "mon.%s.end_calls:i" % t.name
        if b in last and e in last:
            bad.append(z3.And(info["done"][t.name], z3.Not(z3.And(last[b] == I(1), last[e] == I(1)))))
    return z3.Or(bad) if bad else z3.BoolVal(False)


def replay_extra(out):
    """the same final-state invariant evaluated on the real run: every finished worker has begin_calls == end_calls == 1"""
    bad = []
    mon = out.get("monitors") or {}
    for t in out.get("finished_threads") or []:
        b, e = mon.get("%s.begin_calls" % t), mon.get("%s.end_calls" % t)
        if b is None and e is None:
            continue
        if b != 1 or e != 1:
            bad.append("terminated-worker-%s-has-begin_calls=%s-end_calls=%s" % (t, b or 0, e or 0))
    return bad


def configs(tier):
    out = [{"kind": "pool", "lifecycle": True, "workers": 1, "cs": 1, "nmax": 1},
           {"kind": "pool", "lifecycle": True, "workers": 1, "cs": 1, "nmax": 1, "quota": 1}]
    if tier != "quick":
        out += [{"kind": "pool", "lifecycle": True, "workers": 2, "cs": 1, "nmax": 1},
                {"kind": "pool", "lifecycle": True, "workers": 1, "cs": 1, "nmax": 2, "context_bound": 2, "Ks": (76, 90)},
                {"kind": "pool", "lifecycle": True, "workers": 2, "cs": 1, "nmax": 2, "quota": 1, "context_bound": 2, "Ks": (84, 100)},
                {"kind": "pool", "lifecycle": True, "workers": 1, "cs": 1, "nmax": 2, "quota": 1, "rq": 1, "context_bound": 3, "Ks": (80, 96),
                 "witness_any_input": True},  # one worker with quota 1 cannot finish 2 chunks (by design): the witness is a run with n <= 1
                # FactoryFunctorPool: lifecycle of the initial and of the REPLACED worker (all schedules with <= 2 pre-emptions)
                {"kind": "factory", "lifecycle": True, "workers": 1, "cs": 1, "nmax": 1, "quota": 1, "spares": 1, "context_bound": 2, "Ks": (96, 110)}]
    return out


def run(tier, seed):
    Ks = (44, 56, 68) if tier == "quick" else (50, 64, 80, 100)
    return runner.run_property("C04", tier, seed, "harness.pools_common", configs(tier), ("assert",), Ks,
                               900 if tier == "quick" else 1200, META, wall_limit=1700 if tier == "quick" else 5400,
                               extra_module="harness.c04", faults_may_block=True)
