"""C02 - imap and imap_unordered always terminate on finite input (no deadlock). Engine C: deadlock + unwinding queries
on the same model and configurations as C01."""
from vf.bmc import runner
from harness import c01

META = dict(c01.META)
META["explanation"] = ("Same transition system as C01 (regenerated from the bytecode of /repo on every run). Blocking calls "
                       "are disabled transitions; z3 decides that no reachable state exists in which the scenario (with pool: "
                       "... fully consumed imap ...) has not finished and no thread can move (deadlock query), and that every "
                       "execution of the configuration is shorter than K steps (unwinding query), for all interleavings and "
                       "all input lengths n<=N. 'However slowly the iterable produces items' = the feeder not being scheduled.")


def run(tier, seed):
    return runner.run_property("C02", tier, seed, "harness.pools_common", c01.configs(tier), ("deadlock",), c01.ks(tier),
                               900 if tier == "quick" else 1200, META, wall_limit=1700 if tier == "quick" else 5400)
