"""C18 - one opened RandomLineAccessFile / MemoryMappedRandomLineAccessFile / MapAccessFile is read concurrently by the parent
and by forked children: every read returns the requested line. Engine C (bounded model checking, symbolic schedule)."""
from vf.bmc import runner

META = {
    "explanation": "Bounded model checking with a symbolic schedule: the bytecode of RandomLineAccessFile / "
                   "MemoryMappedRandomLineAccessFile / MapAccessFile (__getitem__, _get_item, _read_line, _file_seek, "
                   "_read_next_line, reopen_if_needed, open, close, closed) as loaded from /repo is executed symbolically, once per "
                   "process, into control-flow automata. The operating system is modelled by state variables: one read position per "
                   "open file description; a forked child's copy of the object refers to the parent's description until the code "
                   "calls open() itself; os.getpid() is the process index. The line index of every read of every process is a "
                   "solver variable, and so is the interleaving of all seek/readline/open/close operations of all processes. z3 "
                   "decides that no read returns anything but the requested line (assert query), that no execution is longer than K "
                   "steps (unwinding query) and that a complete correct run exists (witness). Counterexamples, one witness and one "
                   "prefix schedule per configuration are replayed with REAL os.fork()ed processes on a real file, every file "
                   "operation being released by a coordinator in the order of the schedule.",
    "bounds": {"quick": {"children": "1..3", "reads per process": "<=2 (1 with three children)", "lines": 3,
                         "parent reads before fork": "0 or 1", "second child forked after another parent read while the first child runs": "one configuration", "classes": "RandomLineAccessFile, MemoryMappedRandomLineAccessFile, MapAccessFile"},
               "thorough": {"children": "1..3", "reads per process": "<=3 (2 children), <=2 with three children under a context bound",
                            "lines": 3, "parent reads before fork": "0 or 1"}},
    "outside_bounds": ["more processes / reads / lines", "fork patterns other than: all children forked after open() (and an optional parent read), or the "
                       "second child forked after one more parent read while the first child is already running", "slices and iterables as selectors, iteration "
                       "(they are loops over the single-index read that is encoded)", "user-space read-ahead buffers: the model assumes "
                       "every seek and every readline reaches the shared description, which is the worst case",
                       "spawn/forkserver start methods (the object would be pickled)",
                       "line content: a line is represented by its index; decode()/rstrip() are the identity on it"],
    "assumptions": ["fork() copies the Python object; the copy's handle shares the open file description (one position) with the parent",
                    "open() yields a fresh description at position 0; close() in one process does not affect others",
                    "mmap objects keep their position in process memory (private after fork)",
                    "os.getpid() differs between all processes involved",
                    "z3's unsat is trusted; POR verdicts are cross-checked without POR on the smallest configuration"],
    "stubs": ["prims.SimFile / SimMmap (vm.file_op): open, seek, readline, close, fileno, mmap.mmap", "os.getpid",
              "multiprocessing.Process start/join as thread start/join", "harness fork_copy() = what fork does to the object"],
}


def configs(tier):
    out = []
    if tier == "quick":
        out.append({"kind": "rla", "children": 1, "reads": 1, "nlines": 2, "W": 5, "cross_check_por": True})
        out.append({"kind": "rla", "children": 2, "reads": 1, "nlines": 3, "pre": 1, "W": 5})
        out.append({"kind": "rla", "children": 1, "reads": 2, "nlines": 3, "pre": 1, "W": 5})
        out.append({"kind": "rla", "children": 3, "reads": 1, "nlines": 3, "W": 5})
        out.append({"kind": "mmap", "children": 2, "reads": 1, "nlines": 3, "pre": 1, "W": 5})
        out.append({"kind": "map", "children": 2, "reads": 1, "nlines": 3, "pre": 1, "W": 5})
        out.append({"kind": "map", "children": 1, "reads": 2, "nlines": 3, "W": 5})
        out.append({"kind": "rla", "children": 2, "reads": 1, "nlines": 3, "mid": 1, "W": 5})
    else:
        for kind in ("rla", "mmap", "map"):
            out.append({"kind": kind, "children": 1, "reads": 3, "nlines": 3, "pre": 1, "W": 5})
            out.append({"kind": kind, "children": 2, "reads": 2, "nlines": 3, "pre": 1, "W": 5})
            c3 = {"kind": kind, "children": 3, "reads": 1, "nlines": 3, "pre": 1, "W": 5}
            if kind == "mmap":  # measured: without a context bound the assert query is still `unknown` after 1500 s (more steps per read)
                c3["context_bound"] = 4
            out.append(c3)
            out.append({"kind": kind, "children": 2, "reads": 2, "nlines": 3, "mid": 1, "W": 5})
            out.append({"kind": kind, "children": 2, "reads": 3, "nlines": 3, "W": 5, "context_bound": 3})
            out.append({"kind": kind, "children": 3, "reads": 2, "nlines": 3, "W": 5, "context_bound": 3})
    return out


def run(tier, seed):
    Ks = (16, 24, 32, 44, 60) if tier == "quick" else (24, 32, 44, 60, 80)
    return runner.run_property("C18", tier, seed, "harness.files_fork", configs(tier), ("assert",), Ks,
                               300 if tier == "quick" else 1500, META, wall_limit=900 if tier == "quick" else 7000)
