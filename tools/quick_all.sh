#!/bin/bash
# runs the quick tier of every claimed check against /repo (regenerates every evidence file)
cd "$(dirname "$0")/.."
for id in C08 C06 C07 C16 C09 C20 C17 C15 C05 C18 C19 C12 C10 C11 C14 C04 C03 C01 C02; do
  echo "##### $id quick ($(date +%T))"
  ( time ./vcheck run $id --tier quick --quiet ) 2>&1 | grep -v "^$\|^user\|^sys" | tail -6
done
echo ALLDONE
