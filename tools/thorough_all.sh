#!/bin/bash
# runs the thorough tier of the given properties one after the other (used with `vp run --with-repo`)
export VERIF_REPO="${VP_RUN_REPO:-/repo}"
for id in "$@"; do
  echo "##### $id thorough ($(date +%T))"
  ( time ./vcheck run $id --tier thorough --quiet ) 2>&1 | tail -12
done
