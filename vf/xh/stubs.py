"""Stubs used by Engine S harnesses (DESIGN.md 2.3). Every stub in use is listed in the evidence."""


class AssocDict:
    """dict contract on an association list; uses only ``==`` on keys (never ``hash``), so symbolic keys
    stay symbolic and the solver forks on equality patterns, not on values.
    Assumption recorded in the evidence: keys have __hash__ consistent with __eq__ (ints, floats, str, tuples)."""

    def __init__(self):
        self.ks = []
        self.vs = []

    def _find(self, k):
        i = 0
        for kk in self.ks:
            if kk == k:
                return i
            i += 1
        return -1

    def __contains__(self, k):
        return self._find(k) >= 0

    def __getitem__(self, k):
        i = self._find(k)
        if i < 0:
            raise KeyError(k)
        return self.vs[i]

    def __setitem__(self, k, v):
        i = self._find(k)
        if i < 0:
            self.ks.append(k)
            self.vs.append(v)
        else:
            self.vs[i] = v

    def __delitem__(self, k):
        i = self._find(k)
        if i < 0:
            raise KeyError(k)
        del self.ks[i]
        del self.vs[i]

    def __len__(self):
        return len(self.ks)

    def __iter__(self):
        return iter(list(self.ks))

    def keys(self):
        return list(self.ks)

    def values(self):
        return list(self.vs)

    def items(self):
        return list(zip(self.ks, self.vs))

    def get(self, k, d=None):
        i = self._find(k)
        return d if i < 0 else self.vs[i]

    def pop(self, k, *d):
        i = self._find(k)
        if i < 0:
            if d:
                return d[0]
            raise KeyError(k)
        v = self.vs[i]
        del self.ks[i]
        del self.vs[i]
        return v

    def clear(self):
        self.ks = []
        self.vs = []


class PairsMapping:
    """Minimal Mapping (items/len/keys/values) over a list of (key, value) pairs, without hashing the keys.
    Used to hand symbolic intervals to ImmutIntervalMap; pairwise different keys are assumed by the harness
    (the dict contract)."""

    def __init__(self, pairs):
        self.pairs = list(pairs)

    def items(self):
        return list(self.pairs)

    def keys(self):
        return [p[0] for p in self.pairs]

    def values(self):
        return [p[1] for p in self.pairs]

    def __len__(self):
        return len(self.pairs)

    def __iter__(self):
        return iter(self.keys())
