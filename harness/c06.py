"""C06 - LRUCache: one arbitrary operation from every reachable state of capacity cap <= C (inductive step).

State: every recency sequence of n <= cap pairwise distinct keys with values, built through the public API by
storing the keys in reverse recency order (a store puts the key in front and evicts nothing while n <= cap, so
every abstract state is reached). Keys, values and probe arguments are unbounded symbolic ints; the dict inside
the cache is the hash-free AssocDict stub (symbolic runs only; replays use the real dict).
Oracle: ordered list of (key, value), most recently used first. After the operation the public observations
(len, list(c)) and the full representation (dict <-> nodes <-> head/tail/prev/next/size) must match the model.
Views are consumed with a budget of 2*cap+3 elements: reaching the budget is a termination violation.
"""
from windpyutils.structures.caches import LRUCache

from vf import h
from vf.xh.engine import Job

ASSOC = ("windpyutils/structures/caches.py",)

OPS = ["setitem", "getitem", "delitem", "contains", "iter_len", "keys", "values", "items", "get", "pop", "popitem",
       "clear", "update", "setdefault"]

META = {
    "level": "other",
    "explanation": "Bounded symbolic execution (CrossHair/z3) of the real LRUCache + DoublyLinkedList code: from every "
                   "state of capacity<=C (all recency orders, unbounded symbolic int keys/values) every mapping "
                   "operation with symbolic arguments is compared with an ordered-list reference model and the full "
                   "representation invariant; view operations are consumed under an element budget to decide "
                   "termination. Inductive step => operation histories of any length at these capacities.",
    "bounds": {"quick": {"capacity": "1..4", "update_pairs": "<=2"}, "thorough": {"capacity": "1..7", "update_pairs": "<=2"}},
    "outside_bounds": ["capacities above the bound", "keys whose __hash__ is inconsistent with __eq__",
                       "max_size < 1", "== against mappings with symbolic keys (the eq jobs use concrete distinct keys, "
                                       "symbolic values: Mapping.__eq__ hashes the keys)"],
    "assumptions": ["dict semantics of the cache's internal dictionary are those of AssocDict (association list using "
                    "only ==) in symbolic runs; counterexamples are replayed on the real dict",
                    "CrossHair 'Confirmed over all paths' / z3 unsat are trusted"],
    "stubs": ["AssocDict replaces the {} display in windpyutils/structures/caches.py (symbolic runs only)",
              "exception message formatting in raise statements replaced by a constant"],
    "functions": ["windpyutils/structures/caches.py:LRUCache.%s" % m for m in
                  ["__init__", "__getitem__", "__len__", "__iter__", "__setitem__", "__delitem__"]] +
                 ["windpyutils/structures/lists.py:DoublyLinkedList.%s" % m for m in
                  ["prepend", "remove", "move_to_front", "__iter__", "iter_nodes", "__len__"]] +
                 ["collections.abc Mapping/MutableMapping mixins (keys, values, items, get, pop, popitem, clear, update, "
                  "setdefault, __contains__, __eq__) executed as they are"],
}


def distinct_first(n, *ks):
    """the first n keys are pairwise different (the unused ones stay unconstrained)"""
    for a in range(n):
        for b in range(a + 1, n):
            if ks[a] == ks[b]:
                return False
    return True


def _build(cap, n, ks, vs):
    c = LRUCache(cap)
    idx = n - 1
    while idx >= 0:
        c[ks[idx]] = vs[idx]
        idx -= 1
    return c


def _find(model, k):
    i = 0
    for mk, _ in model:
        if mk == k:
            return i
        i += 1
    return -1


def _check(c, model, tag):
    n = len(model)
    if len(c) != n:
        return h.fail(tag + ":len")
    if n > c.max_size:
        return h.fail(tag + ":over-capacity")
    # public iteration (keys, most recent first), bounded
    got = []
    for key in c:
        got.append(key)
        if len(got) > n + 1:
            return h.fail(tag + ":iter-too-long")
    if len(got) != n:
        return h.fail(tag + ":iter-len")
    i = 0
    for key in got:
        if not (key == model[i][0]):
            return h.fail(tag + ":iter-order")
        i += 1
    # representation: list nodes <-> dict
    lst = c.list
    node = lst.head
    prev = None
    i = 0
    while node is not None:
        if i >= n:
            return h.fail(tag + ":rep-list-long")
        if node.prev_node is not prev:
            return h.fail(tag + ":rep-prev-link")
        if not (node.data[0] == model[i][0]):
            return h.fail(tag + ":rep-key")
        if not (node.data[1] == model[i][1]):
            return h.fail(tag + ":rep-value")
        if c.cache[model[i][0]] is not node:
            return h.fail(tag + ":rep-dict-node")
        prev = node
        node = node.next_node
        i += 1
    if i != n:
        return h.fail(tag + ":rep-list-short")
    if lst.tail is not prev:
        return h.fail(tag + ":rep-tail")
    if len(lst) != n:
        return h.fail(tag + ":rep-size")
    if len(c.cache) != n:
        return h.fail(tag + ":rep-dict-len")
    return h.ok()


def _store(model, cap, k, v):
    i = _find(model, k)
    if i >= 0:
        del model[i]
    elif len(model) >= cap:
        del model[-1]
    model.insert(0, (k, v))


def _consume(it, budget):
    out = []
    for x in it:
        out.append(x)
        if len(out) >= budget:
            return out, False
    return out, True


def step(k0: int, k1: int, k2: int, k3: int, k4: int, k5: int, k6: int, v0: int, v1: int, v2: int, v3: int, v4: int,
         v5: int, v6: int, k: int, v: int, kk: int, vv: int, flag: bool) -> bool:
    """
    pre: distinct_first(h.P["n"], k0, k1, k2, k3, k4, k5, k6)
    post: _
    """
    cap = h.P["cap"]
    n = h.P["n"]
    op = h.P["op"]
    ks = [k0, k1, k2, k3, k4, k5, k6][:n]
    vs = [v0, v1, v2, v3, v4, v5, v6][:n]
    c = _build(cap, n, ks, vs)
    model = list(zip(ks, vs))
    pre = _check(c, model, "build")
    if h.MODE != "twin" and not pre:
        return pre
    budget = 2 * cap + 3
    tag = op
    try:
        if op == "setitem":
            c[k] = v
            _store(model, cap, k, v)
        elif op == "getitem":
            i = _find(model, k)
            try:
                r = c[k]
            except KeyError:
                if i >= 0:
                    return h.fail("getitem:keyerror-on-present")
                return _check(c, model, tag)
            if i < 0:
                return h.fail("getitem:value-for-absent")
            if not (r == model[i][1]):
                return h.fail("getitem:wrong-value")
            model.insert(0, model.pop(i))
        elif op == "delitem":
            i = _find(model, k)
            try:
                del c[k]
            except KeyError:
                if i >= 0:
                    return h.fail("delitem:keyerror-on-present")
                return _check(c, model, tag)
            if i < 0:
                return h.fail("delitem:no-keyerror")
            del model[i]
        elif op == "contains":
            i = _find(model, k)
            r = k in c
            if r != (i >= 0):
                return h.fail("contains:wrong")
            # a membership test may or may not count as a use
            if i > 0 and c.list.head is not None and c.list.head.data[0] == k:
                model.insert(0, model.pop(i))
        elif op == "iter_len":
            pass  # _check observes len and iteration
        elif op == "keys":
            got, done = _consume(c.keys(), budget)
            if not done:
                return h.fail("keys:does-not-terminate")
            if len(got) != n:
                return h.fail("keys:len")
            i = 0
            for key in got:
                if not (key == model[i][0]):
                    return h.fail("keys:order")
                i += 1
        elif op == "values" or op == "items":
            view = c.values() if op == "values" else c.items()
            if len(view) != n:
                return h.fail(op + ":view-len")
            got, done = _consume(view, budget)
            if not done:
                return h.fail(op + ":does-not-terminate")
            if len(got) != n:
                return h.fail(op + ":count")
            used = [False] * n
            for g in got:
                hit = -1
                i = 0
                for mk, mv in model:
                    if not used[i]:
                        if op == "values":
                            if g == mv:
                                hit = i
                                break
                        elif g[1] == mv and g[0] == mk:
                            hit = i
                            break
                    i += 1
                if hit < 0:
                    return h.fail(op + ":content")
                used[hit] = True
            # lookups made by the view count as uses: any recency order of the same content is accepted
            return _check_content_any_order(c, model, tag)
        elif op == "get":
            i = _find(model, k)
            r = c.get(k, v)
            if i >= 0:
                if not (r == model[i][1]):
                    return h.fail("get:wrong-value")
                model.insert(0, model.pop(i))
            elif not (r == v):
                return h.fail("get:default")
        elif op == "pop":
            i = _find(model, k)
            if flag:
                r = c.pop(k, v)
                if i >= 0:
                    if not (r == model[i][1]):
                        return h.fail("pop:wrong-value")
                    del model[i]
                elif not (r == v):
                    return h.fail("pop:default")
            else:
                try:
                    r = c.pop(k)
                except KeyError:
                    if i >= 0:
                        return h.fail("pop:keyerror-on-present")
                    return _check(c, model, tag)
                if i < 0:
                    return h.fail("pop:no-keyerror")
                if not (r == model[i][1]):
                    return h.fail("pop:wrong-value")
                del model[i]
        elif op == "popitem":
            try:
                rk, rv = c.popitem()
            except KeyError:
                if n > 0:
                    return h.fail("popitem:keyerror-on-nonempty")
                return _check(c, model, tag)
            if n == 0:
                return h.fail("popitem:no-keyerror")
            i = _find(model, rk)
            if i < 0 or not (rv == model[i][1]):
                return h.fail("popitem:not-in-content")
            del model[i]
        elif op == "clear":
            c.clear()
            model = []
        elif op == "update":
            m = h.P["m"]
            pairs = [(k, v), (kk, vv)][:m]
            c.update(pairs)
            for pk, pv in pairs:
                _store(model, cap, pk, pv)
        elif op == "setdefault":
            i = _find(model, k)
            r = c.setdefault(k, v)
            if i >= 0:
                if not (r == model[i][1]):
                    return h.fail("setdefault:wrong-value")
                model.insert(0, model.pop(i))
            else:
                if not (r == v):
                    return h.fail("setdefault:default")
                _store(model, cap, k, v)
    except Exception as e:  # noqa
        return h.fail(tag + ":raises-" + type(e).__name__)
    return _check(c, model, tag)


def _check_content_any_order(c, model, tag):
    """Same content, any recency order (used after views whose lookups count as uses)."""
    n = len(model)
    if len(c) != n:
        return h.fail(tag + ":len-after")
    got, done = _consume(iter(c), n + 2)
    if not done or len(got) != n:
        return h.fail(tag + ":iter-after")
    order = []
    for key in got:
        i = _find(model, key)
        if i < 0:
            return h.fail(tag + ":content-after")
        order.append(model[i])
    # order has n entries with pairwise distinct keys (model keys distinct, each found) -> check it is a permutation
    i = 0
    while i < n:
        j = i + 1
        while j < n:
            if order[i][0] == order[j][0]:
                return h.fail(tag + ":duplicate-key-after")
            j += 1
        i += 1
    return _check(c, order, tag)


def eq_step(v0: int, v1: int, v2: int, v3: int, v4: int, v5: int, v6: int, w: int, pos: int, same: bool) -> bool:
    """
    pre: 0 <= pos < max(1, h.P['n'])
    post: _
    """
    # == terminates and agrees with the content. Keys are concrete and distinct here (Mapping.__eq__ hashes them),
    # values symbolic; the other operand is a dict / another LRUCache with equal or differing content.
    cap = h.P["cap"]
    n = h.P["n"]
    kind = h.P["kind"]
    ks = list(range(n))
    vs = [v0, v1, v2, v3, v4, v5, v6][:n]
    c = _build(cap, n, ks, vs)
    ovs = list(vs)
    if not same and n > 0:
        ovs[pos] = w
    if kind == "dict":
        other = {}
        i = n - 1
        while i >= 0:
            other[ks[i]] = ovs[i]
            i -= 1
    elif kind == "lru-reversed":
        other = _build(cap, n, ks[::-1], ovs[::-1])
    else:  # shorter content
        other = _build(cap, max(0, n - 1), ks[:max(0, n - 1)], ovs[:max(0, n - 1)])
    got, done = _consume(c.items(), 2 * cap + 3)
    if not done:
        return h.fail("eq:items-does-not-terminate")
    expect = True
    if kind == "shorter":
        expect = (n == 0)
    elif not same and n > 0:
        expect = (w == vs[pos])
    r = (c == other)
    if r != expect:
        return h.fail("eq:wrong-result")
    r2 = (c != other)
    if r2 == expect:
        return h.fail("ne:wrong-result")
    return _check_content_any_order(c, list(zip(ks, vs)), "eq")


def jobs(tier):
    T = 90 if tier == "quick" else 600
    C = 4 if tier == "quick" else 7
    out = []
    for cap in range(1, C + 1):
        for n in range(0, cap + 1):
            for op in OPS:
                if op == "update":
                    for m in (0, 1, 2):
                        out.append(Job("C06", "harness.c06", "step", {"op": op, "cap": cap, "n": n, "m": m}, timeout=T,
                                       name="step[%s,cap=%d,n=%d,m=%d]" % (op, cap, n, m), assoc=ASSOC))
                else:
                    out.append(Job("C06", "harness.c06", "step", {"op": op, "cap": cap, "n": n}, timeout=T,
                                   name="step[%s,cap=%d,n=%d]" % (op, cap, n), assoc=ASSOC))
            for kind in ("dict", "lru-reversed", "shorter"):
                out.append(Job("C06", "harness.c06", "eq_step", {"cap": cap, "n": n, "kind": kind}, timeout=T,
                               name="eq[%s,cap=%d,n=%d]" % (kind, cap, n), assoc=ASSOC))
    return out
