"""C16 - ImmutIntervalMap: construction succeeds iff intervals are valid and pairwise disjoint; lookup returns the
value of the unique closed interval containing the key.

n intervals (fixed per job) with unbounded symbolic ends (one family with ints, one with reals), given unsorted
through PairsMapping (the dict contract: pairwise different keys, assumed by precondition); symbolic probe key.
Values are the concrete tags 100+i so that a lookup identifies the interval.
"""
from windpyutils.structures.maps import ImmutIntervalMap

from vf import h
from vf.xh.engine import Job
from vf.xh.stubs import PairsMapping

META = {
    "level": "other",
    "explanation": "Bounded symbolic execution (CrossHair/z3) of ImmutIntervalMap.__init__/__getitem__/__contains__/"
                   "__len__/__iter__ and the SpanSet code it calls: interval ends and the probe key are unbounded solver "
                   "variables (ints; reals), every relative position of key and intervals is a path decided by z3; "
                   "results are compared with a linear scan over the defining pairs.",
    "bounds": {"quick": {"intervals": "<=3"}, "thorough": {"intervals": "<=4 (ints), <=3 (reals)"}},
    "outside_bounds": ["more intervals than the bound", "NaN / infinite ends or keys (floats are modelled as reals; "
                       "exact for comparisons of finite numbers)", "mapping arguments whose items() repeats a key"],
    "assumptions": ["the mapping argument satisfies the dict contract (pairwise different keys): PairsMapping stub",
                    "CrossHair 'Confirmed over all paths' / z3 unsat are trusted"],
    "stubs": ["PairsMapping (items()/len() over a list of pairs, no hashing of symbolic tuples)",
              "exception message formatting in raise statements replaced by a constant"],
    "functions": ["windpyutils/structures/maps.py:ImmutIntervalMap.%s" % m for m in
                  ["__init__", "__len__", "__getitem__", "__iter__", "__contains__"]] +
                 ["windpyutils/structures/span_set.py:SpanSet.__init__", "windpyutils/structures/span_set.py:SpanSet.__len__",
                  "windpyutils/structures/span_set.py:SpanSetOverlapsEqRelation.__call__"],
}


def _body(ss, es, key):
    n = h.P["n"]
    ss = ss[:n]
    es = es[:n]
    pairs = [((ss[i], es[i]), 100 + i) for i in range(n)]
    # reference: validity
    valid = True
    for i in range(n):
        if ss[i] > es[i]:
            valid = False
    if valid:
        for i in range(n):
            for j in range(i + 1, n):
                if ss[i] <= es[j] and ss[j] <= es[i]:
                    valid = False
    try:
        m = ImmutIntervalMap(PairsMapping(pairs))
    except KeyError:
        if valid:
            return h.fail("init:keyerror-on-valid-intervals")
        return h.ok()
    except Exception as e:  # noqa
        return h.fail("init:raises-" + type(e).__name__)
    if not valid:
        return h.fail("init:accepts-invalid-or-overlapping")
    if len(m) != n:
        return h.fail("len")
    # reference lookup
    exp = -1
    for i in range(n):
        if ss[i] <= key and key <= es[i]:
            exp = 100 + i
    try:
        r = m[key]
    except KeyError:
        if exp >= 0:
            return h.fail("getitem:keyerror-inside-interval")
        r = None
    except Exception as e:  # noqa
        return h.fail("getitem:raises-" + type(e).__name__)
    if r is not None and r != exp:
        return h.fail("getitem:wrong-value" if exp >= 0 else "getitem:value-outside-intervals")
    if (key in m) != (exp >= 0):
        return h.fail("contains:disagrees")
    # iteration: ascending and complete
    got = list(m)
    if len(got) != n:
        return h.fail("iter:len")
    for t in range(n):
        (s, e), v = got[t]
        i = v - 100
        if not (0 <= i < n) or not (s == ss[i] and e == es[i]):
            return h.fail("iter:content")
        if t > 0 and not (got[t - 1][0][1] < s):
            return h.fail("iter:not-ascending")
        for u in range(t):
            if got[u][1] == v:
                return h.fail("iter:duplicate")
    return h.ok()


def ints(s0: int, e0: int, s1: int, e1: int, s2: int, e2: int, s3: int, e3: int, key: int) -> bool:
    """
    pre: (s0 != s1 or e0 != e1) and (s0 != s2 or e0 != e2) and (s0 != s3 or e0 != e3)
    pre: (s1 != s2 or e1 != e2) and (s1 != s3 or e1 != e3) and (s2 != s3 or e2 != e3)
    post: _
    """
    return _body([s0, s1, s2, s3], [e0, e1, e2, e3], key)


def reals(s0: float, e0: float, s1: float, e1: float, s2: float, e2: float, s3: float, e3: float, key: float) -> bool:
    """
    pre: (s0 != s1 or e0 != e1) and (s0 != s2 or e0 != e2) and (s0 != s3 or e0 != e3)
    pre: (s1 != s2 or e1 != e2) and (s1 != s3 or e1 != e3) and (s2 != s3 or e2 != e3)
    post: _
    """
    return _body([s0, s1, s2, s3], [e0, e1, e2, e3], key)


def mixed(s0: int, e0: float, s1: float, e1: int, s2: int, e2: int, s3: float, e3: float, key: float) -> bool:
    """
    pre: (s0 != s1 or e0 != e1) and (s0 != s2 or e0 != e2) and (s0 != s3 or e0 != e3)
    pre: (s1 != s2 or e1 != e2) and (s1 != s3 or e1 != e3) and (s2 != s3 or e2 != e3)
    post: _
    """
    return _body([s0, s1, s2, s3], [e0, e1, e2, e3], key)


def jobs(tier):
    out = []
    N = 3 if tier == "quick" else 4
    for n in range(0, N + 1):
        out.append(Job("C16", "harness.c16", "ints", {"n": n}, timeout=900, name="ints[n=%d]" % n))
    for n in range(0, 3 + 1):
        out.append(Job("C16", "harness.c16", "reals", {"n": n}, timeout=900, name="reals[n=%d]" % n))
    for n in range(1, 3 + 1):
        out.append(Job("C16", "harness.c16", "mixed", {"n": n}, timeout=900, name="mixed[n=%d]" % n))
    return out
